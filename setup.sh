#!/bin/bash
# Builds the monitor runtime from files on disk only (offline).
cd "$(dirname "$0")" && python3 -c "
import sys; sys.path.insert(0,'.')
from lib import core; core.ensure_rt(); print('runtime built in', core.VERIF+'/build')"
