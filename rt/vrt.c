// Monitor runtime linked into every generated test program. Compiled by gcc.
#define _GNU_SOURCE
#include <stdio.h>
#include <stdlib.h>
#include <string.h>
#include <unistd.h>
#include <signal.h>
#include <stdint.h>
#include "vrt.h"

static char *buf;
static size_t len, cap;
static long fuel = 200000;
static int flushed_once;

static void put(const char *s, size_t n) {
  if (len + n + 1 > cap) {
    cap = (cap ? cap * 2 : 1 << 16) + n;
    buf = realloc(buf, cap);
    if (!buf) _exit(99);
  }
  memcpy(buf + len, s, n);
  len += n;
}

void vrt_flush(void) {
  size_t off = 0;
  while (off < len) {
    ssize_t w = write(1, buf + off, len - off);
    if (w <= 0) break;
    off += w;
  }
  len = 0;
}

static void on_exit_flush(void) {
  if (getenv("VERIF_PROBE_REPORT")) {
    char t[64];
    int n = snprintf(t, sizeof t, "PROBES %ld\n", vrt_probe_count());
    put(t, n);
  }
  vrt_flush();
}

static void on_signal(int sig) {
  char t[64];
  int n = snprintf(t, sizeof t, "SIGNAL %d\n", sig);
  put(t, n);
  vrt_flush();
  _exit(96);
}

__attribute__((constructor)) static void vrt_init(void) {
  const char *f = getenv("VERIF_FUEL");
  if (f) fuel = atol(f);
  atexit(on_exit_flush);
  // alternate stack so that a stack overflow can still be reported
  static char altstack[1 << 16];
  stack_t ss = {.ss_sp = altstack, .ss_size = sizeof altstack};
  sigaltstack(&ss, 0);
  struct sigaction sa;
  memset(&sa, 0, sizeof sa);
  sa.sa_handler = on_signal;
  sa.sa_flags = SA_ONSTACK;
  int sigs[] = {SIGSEGV, SIGBUS, SIGFPE, SIGILL, SIGABRT};
  for (unsigned i = 0; i < sizeof sigs / sizeof *sigs; i++)
    sigaction(sigs[i], &sa, 0);
  (void)flushed_once;
}

static const char hexd[] = "0123456789abcdef";

void OUT(long id, const void *p, long n) {
  char t[32];
  int k = snprintf(t, sizeof t, "%ld:", id);
  put(t, k);
  const unsigned char *q = p;
  for (long i = 0; i < n; i++) {
    char h[2] = {hexd[q[i] >> 4], hexd[q[i] & 15]};
    put(h, 2);
  }
  put("\n", 1);
}

void OUTV(long id, long v) {
  char t[64];
  int k = snprintf(t, sizeof t, "%ld=%ld\n", id, v);
  put(t, k);
}

void OUTS(long id, const char *s) {
  char t[32];
  int k = snprintf(t, sizeof t, "%ld\"", id);
  put(t, k);
  put(s, strlen(s));
  put("\"\n", 2);
}

static void out_of_fuel(void) {
  put("FUEL-EXHAUSTED\n", 15);
  vrt_flush();
  _exit(0);
}

void MARK(long id) {
  char t[32];
  int k = snprintf(t, sizeof t, "m%ld\n", id);
  put(t, k);
  if (--fuel <= 0) out_of_fuel();
}

int FUEL(void) {
  if (--fuel <= 0) out_of_fuel();
  return 1;
}

// ---- object liveness registry (C04) ---------------------------------
#define MAXOBJ 4096
static struct { long id; uintptr_t a; long n; int live; } objs[MAXOBJ];
static int nobj;

static unsigned char pat(long id, long i) { return (unsigned char)(id * 131 + i * 7 + 1); }

void REG(long id, const void *p, long n, long align) {
  char t[128];
  uintptr_t a = (uintptr_t)p;
  if (align > 0 && a % align) {
    int k = snprintf(t, sizeof t, "MISALIGNED id=%ld align=%ld mod=%ld\n", id, align, (long)(a % align));
    put(t, k);
  }
  for (int i = 0; i < nobj; i++)
    if (objs[i].live && n > 0 && objs[i].n > 0 && a < objs[i].a + objs[i].n && objs[i].a < a + n) {
      int k = snprintf(t, sizeof t, "OVERLAP id=%ld with=%ld\n", id, objs[i].id);
      put(t, k);
    }
  if (nobj < MAXOBJ) {
    objs[nobj].id = id; objs[nobj].a = a; objs[nobj].n = n; objs[nobj].live = 1;
    nobj++;
  }
  unsigned char *q = (unsigned char *)p;
  for (long i = 0; i < n; i++) q[i] = pat(id, i);
}

void FILLPAT(long id) {
  for (int i = 0; i < nobj; i++)
    if (objs[i].live && objs[i].id == id) {
      unsigned char *q = (unsigned char *)objs[i].a;
      for (long j = 0; j < objs[i].n; j++) q[j] = pat(id, j);
    }
}

void CHECKPAT(long id) {
  char t[128];
  for (int i = 0; i < nobj; i++) {
    if (!objs[i].live || (id >= 0 && objs[i].id != id)) continue;
    unsigned char *q = (unsigned char *)objs[i].a;
    for (long j = 0; j < objs[i].n; j++)
      if (q[j] != pat(objs[i].id, j)) {
        int k = snprintf(t, sizeof t, "CLOBBERED id=%ld at=%ld\n", objs[i].id, j);
        put(t, k);
        break;
      }
  }
}

void UNREG(long id) {
  for (int i = 0; i < nobj; i++)
    if (objs[i].live && objs[i].id == id) objs[i].live = 0;
}

// ---- probe failure sinks (called from vrt_asm.S) ---------------------
long __verif_probe_count;
long vrt_probe_count(void) { return __verif_probe_count; }

void __verif_probe_fail(long kind, long a, long b, long line) {
  static const char *names[] = {"rsp-drift", "x87-residue", "x87-cw-changed", "mxcsr-changed", "misaligned-call"};
  char t[160];
  int k = snprintf(t, sizeof t, "PROBE-FAIL %s a=%ld b=%ld line=%ld probes=%ld\n",
                   names[kind], a, b, line, __verif_probe_count);
  put(t, k);
  vrt_flush();
  _exit(98);
}
