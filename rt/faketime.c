// LD_PRELOAD shim for the determinism monitor (C12): shifts the wall clock seen through time().
#define _GNU_SOURCE
#include <dlfcn.h>
#include <time.h>
#include <stdlib.h>
time_t time(time_t *t) {
  static time_t (*real)(time_t *);
  if (!real) real = dlsym(RTLD_NEXT, "time");
  const char *o = getenv("VERIF_TIME_OFFSET");
  const char *f = getenv("VERIF_TIME_FIXED");
  time_t v = f ? atol(f) : real(0) + (o ? atol(o) : 0);
  if (t) *t = v;
  return v;
}
