/* C06 va_list interoperability: shared declarations */
#include <stdarg.h>
typedef struct { long a, b; } S16; typedef struct { long a, b, c; } S24; typedef struct { double x, y; } D16; typedef struct { int i; double d; } ID; typedef struct { double d; int i; } DI; typedef struct { float f[3]; } F12; typedef struct { char c[3]; } C3;
#define CONSUME_BODY \
  long s = 0; \
  for (; *fmt; fmt++) switch (*fmt) { \
    case 'i': s = s * 3 + va_arg(ap, int); break; \
    case 'l': s = s * 3 + va_arg(ap, long); break; \
    case 'd': s = s * 3 + (long)(va_arg(ap, double) * 4); break; \
    case 'L': s = s * 3 + (long)(va_arg(ap, long double) * 4); break; \
    case 'p': s = s * 3 + *va_arg(ap, int *); break; \
    case 'A': { S16 v = va_arg(ap, S16); s = s * 3 + v.a + v.b * 2; break; } \
    case 'B': { S24 v = va_arg(ap, S24); s = s * 3 + v.a + v.c * 2; break; } \
    case 'C': { D16 v = va_arg(ap, D16); s = s * 3 + (long)(v.x * 4 + v.y * 8); break; } \
    case 'D': { ID v = va_arg(ap, ID); s = s * 3 + v.i + (long)(v.d * 4); break; } \
    case 'E': { DI v = va_arg(ap, DI); s = s * 3 + v.i * 2 + (long)(v.d * 4); break; } \
    case 'F': { F12 v = va_arg(ap, F12); s = s * 3 + (long)(v.f[0] * 4 + v.f[2] * 8); break; } \
    case 'G': { C3 v = va_arg(ap, C3); s = s * 3 + v.c[0] + v.c[2] * 2; break; } \
  } \
  return s % 1000000007;
long g_consume(const char *fmt, va_list ap); long c_consume(const char *fmt, va_list ap);
long g_variadic(const char *fmt, ...); long g_forward(const char *fmt, ...);
long g_named_fwd(int a, double b, long c, double d, int e, double f, long g, long h, long i7, double j, const char *fmt, ...);
