/* reference side (always gcc): consumers and producers of va_list */
#include "va_common.h"
long g_consume(const char *fmt, va_list ap) { CONSUME_BODY }
long g_variadic(const char *fmt, ...) { va_list ap; va_start(ap, fmt); long r = g_consume(fmt, ap); va_end(ap); return r; }
long g_forward(const char *fmt, ...) { va_list ap; va_start(ap, fmt); long r = c_consume(fmt, ap); va_end(ap); return r; }
long g_named_fwd(int a, double b, long c, double d, int e, double f, long g, long h, long i7, double j, const char *fmt, ...) { va_list ap; va_start(ap, fmt); long r = c_consume(fmt, ap) + a + (long)b + c + (long)d + e + (long)f + g + h + i7 + (long)j; va_end(ap); return r; }
