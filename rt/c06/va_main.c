/* side under test: producers with named parameters of every class in front of the unnamed arguments, and a consumer */
#include <stdio.h>
#include "va_common.h"
long c_consume(const char *fmt, va_list ap) { CONSUME_BODY }
static long p0(const char *fmt, ...) { va_list ap; va_start(ap, fmt); long r = g_consume(fmt, ap); va_end(ap); return r; }
static long p1(double a, const char *fmt, ...) { va_list ap; va_start(ap, fmt); long r = g_consume(fmt, ap) + (long)a; va_end(ap); return r; }
static long p2(long double a, const char *fmt, ...) { va_list ap; va_start(ap, fmt); long r = g_consume(fmt, ap) + (long)a; va_end(ap); return r; }
static long p3(S16 a, const char *fmt, ...) { va_list ap; va_start(ap, fmt); long r = g_consume(fmt, ap) + a.b; va_end(ap); return r; }
static long p4(S24 a, const char *fmt, ...) { va_list ap; va_start(ap, fmt); long r = g_consume(fmt, ap) + a.c; va_end(ap); return r; }
static long p5(D16 a, const char *fmt, ...) { va_list ap; va_start(ap, fmt); long r = g_consume(fmt, ap) + (long)a.y; va_end(ap); return r; }
static long p6(int a, int b, int c, int d, int e, int f, int g, int h, const char *fmt, ...) { va_list ap; va_start(ap, fmt); long r = g_consume(fmt, ap) + a + h; va_end(ap); return r; }
static long p7(double a, double b, double c, double d, double e, double f, double g, double h, double i, const char *fmt, ...) { va_list ap; va_start(ap, fmt); long r = g_consume(fmt, ap) + (long)(a + i); va_end(ap); return r; }
static long p8(int a, double b, S16 c, long double d, D16 e, S24 f, ID g, const char *fmt, ...) { va_list ap; va_start(ap, fmt); long r = g_consume(fmt, ap) + a + (long)b + c.b + (long)d + (long)e.y + f.c + g.i; va_end(ap); return r; }
static long p9(const char *fmt, ...) { va_list ap, aq; va_start(ap, fmt); va_copy(aq, ap); long r = g_consume(fmt, ap) * 1000 + c_consume(fmt, aq) % 1000; va_end(ap); va_end(aq); return r; }
static long pa(const char *fmt, ...) { va_list ap; va_start(ap, fmt); long first = va_arg(ap, int) + (long)va_arg(ap, double); long r = g_consume(fmt + 2, ap) + first; va_end(ap); return r; }
static long pc(const char *fmt, ...) { va_list ap; va_start(ap, fmt); long r = c_consume(fmt, ap); va_end(ap); return r; }
#define ARGS 1, 2.5, 3L, 4.25L, 5, 6.5, 7.75, 8L, 9, 10.5, 11.25, 12, 13.5L, 14.5, 15.25, 16.5, 17L, 18.5, 19, 20.5
#define FMT "idlLiddliddiLdddldid"
#define SARGS s16, 1, d16, 2.5, id, s24, di, f12, c3, s16, d16, 3, id, di, 4.5, s16, f12, d16, c3, id
#define SFMT "AiCdDBEFGACiDEdAFCGD"
int main(void) {
  int q = 77; S16 s16 = {1, 2}; S24 s24 = {3, 4, 5}; D16 d16 = {6.5, 7.5}; ID id = {8, 9.5}; DI di = {10.5, 11}; F12 f12 = {{1.5f, 2.5f, 3.5f}}; C3 c3 = {{12, 13, 14}};
  printf("p0 %ld\n", p0(FMT, ARGS)); printf("p1-named-double %ld\n", p1(1.5, FMT, ARGS)); printf("p2-named-long-double %ld\n", p2(2.5L, FMT, ARGS)); printf("p3-named-struct-2gp %ld\n", p3(s16, FMT, ARGS));
  printf("p4-named-struct-memory %ld\n", p4(s24, FMT, ARGS)); printf("p5-named-struct-2sse %ld\n", p5(d16, FMT, ARGS)); printf("p6-named-8-ints %ld\n", p6(1, 2, 3, 4, 5, 6, 7, 8, FMT, ARGS));
  printf("p7-named-9-doubles %ld\n", p7(1, 2, 3, 4, 5, 6, 7, 8, 9, FMT, ARGS)); printf("p8-named-mixed %ld\n", p8(1, 2.5, s16, 3.5L, d16, s24, id, FMT, ARGS)); printf("p9-va_copy %ld\n", p9(FMT, ARGS)); printf("pa-partly-consumed %ld\n", pa(FMT, ARGS));
  printf("g_variadic %ld\n", g_variadic(FMT, ARGS)); printf("g_forward %ld\n", g_forward(FMT, ARGS)); printf("g_named_fwd %ld\n", g_named_fwd(1, 2.5, 3, 4.5, 5, 6.5, 7, 8, 9, 10.5, FMT, ARGS)); printf("pointers %ld\n", p0("pidp", &q, 1, 2.5, &q));
  printf("s0-structs-to-reference %ld\n", p0(SFMT, SARGS)); printf("s1-structs-own-va_arg %ld\n", pc(SFMT, SARGS)); printf("s2-structs-from-reference %ld\n", g_forward(SFMT, SARGS)); printf("s3-structs-reference-only %ld\n", g_variadic(SFMT, SARGS));
  printf("s4-structs-behind-named %ld\n", p8(1, 2.5, s16, 3.5L, d16, s24, id, SFMT, SARGS)); printf("s5-structs-behind-9-doubles %ld\n", p7(1, 2, 3, 4, 5, 6, 7, 8, 9, SFMT, SARGS)); printf("s6-structs-named-fwd %ld\n", g_named_fwd(1, 2.5, 3, 4.5, 5, 6.5, 7, 8, 9, 10.5, SFMT, SARGS));
  return 0;
}
