// Monitor runtime interface, included by generated programs (all three compilers).
#ifndef VRT_H
#define VRT_H
void OUT(long id, const void *p, long n);   // record n raw bytes of an object
void OUTV(long id, long v);                  // record an integer value
void OUTS(long id, const char *s);           // record a C string
void MARK(long id);                          // trace marker, consumes fuel
int  FUEL(void);                             // consumes one unit of fuel, 0 when exhausted
void dirty_stack(void);                      // fill 64 KiB below rsp with 0xA5
void vrt_flush(void);
void REG(long id, const void *p, long n, long align); // object-liveness: register
void UNREG(long id);                                   // object-liveness: unregister
void CHECKPAT(long id);                                // verify pattern of a live object
void FILLPAT(long id);
long vrt_probe_count(void);
#endif
long vrt_sret_call(void *fn, void *buf);   // returns %rax left by a MEMORY-class-returning parameterless function
