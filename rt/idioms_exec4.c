#include <stdio.h>
#include <string.h>
#include <stddef.h>
static long results[800]; static int nr;
#define R(e) (results[nr++] = (long)(e))
enum E3 { EA, EB, EC, ED };
struct B { int a : 3; unsigned b : 3; _Bool c : 1; enum E3 e : 2; long l : 40; unsigned long ul : 40; signed char sc : 4; unsigned short us : 9; };
struct P12 { int x, y, z; };
union US { char s[4]; int i; };
struct Deep { struct { struct { int a[2][2]; } in[2]; } mid; };
static int fcalls; static int f1(void) { fcalls++; return 1; }
static struct P12 mkp(int k) { struct P12 p = { k, k * 2, k * 3 }; return p; }
static int arr2d[3][4] = { [1] = { 1, 2 }, [2][3] = 9, [0][1] = 5 };
static struct P12 parr[] = { [0 ... 2] = { 1, 2, 3 }, [1].y = 20, [3] = { .z = 7 } };
static char s5[5] = "abcde"; static char s6[] = "ab\0cd"; static union US us1 = { "abc" }, us2 = { .i = 0x41424344 };
static int idx[] = { [sizeof(int)] = 1, [2] = 5 }; static long sizes[] = { sizeof idx, sizeof parr, sizeof s6, sizeof(struct B), sizeof(union US), _Alignof(struct B) };
int main(void) {
  struct B b = { -1, 7, 1, ED, -1, -1, -1, 511 };
  R(b.a); R(b.b); R(b.c); R(b.e); R(b.l); R(b.ul); R(b.sc); R(b.us); R(sizeof b);
  R(b.a = 9); R(b.a); R(b.b = 9); R(b.b); R(b.c = 2); R(b.c); R(b.l = 1L << 39); R(b.l); R(b.ul = -1); R(b.sc = 8); R(b.us = 1024 + 5);
  R(b.a = b.b = 7); R(b.a); R(b.b); R(++b.a); R(b.a++); R(b.a); R(--b.b); R(b.b--); R(b.b); R(b.b += 3); R(b.a -= 10); R(b.c++); R(b.c); R(b.c--); R(b.c); R(b.e++); R(b.e); R(b.sc++); R(b.sc); R(b.us <<= 3); R(b.us |= 0x1ff); R(b.l >>= 3); R(b.ul >>= 39);
  R((b.a = 3, b.b = 5, b.a + b.b)); R(b.a < b.b); R(b.a - b.b); R(-b.b); R(~b.b); R(b.b << 30); R(b.ul << 30); R(b.a ? b.b : b.a); R(sizeof(b.a + 0)); R(sizeof(b.l + 0)); R((b.ul = 1) - 2 < 0); R((b.b = 1) - 2 < 0);
  struct P12 ps[5]; for (int i = 0; i < 5; i++) ps[i] = mkp(i); struct P12 *p = &ps[4], *q = &ps[1]; R(p - q); R(q - p); R((p - q) * 2); R(&ps[0] - &ps[4]); R((char *)p - (char *)q); R(p > q); R((&ps[2])[-1].y); R((p - 2)->z); R(*(&p->x + 1)); R((*q).z + q[1].x); R(mkp(3).y + mkp(4).z); R(sizeof mkp(1)); R(sizeof(mkp(1), 1L));
  R(arr2d[0][1] + arr2d[1][1] + arr2d[2][3] + arr2d[1][3]); R(parr[1].y * 100 + parr[2].z * 10 + parr[3].z + parr[3].x); R(sizeof parr / sizeof *parr); R(s5[4]); R(sizeof s5); R(sizeof s6); R(s6[3]); R(us1.s[2] + us1.s[3]); R(us2.s[0]); R(idx[4] + idx[2]); R(sizeof idx / sizeof *idx);
  for (unsigned i = 0; i < sizeof sizes / sizeof *sizes; i++) R(sizes[i]);
  struct Deep d = { .mid.in[1].a[1][0] = 7, .mid.in[0].a = { { 1, 2 }, { 3 } } }; R(d.mid.in[1].a[1][0] + d.mid.in[0].a[0][1] + d.mid.in[0].a[1][0] + d.mid.in[0].a[1][1]); struct Deep d2 = d; d2.mid.in[0] = d.mid.in[1]; R(d2.mid.in[0].a[1][0]); R(memcmp(&d2.mid.in[0], &d2.mid.in[1], sizeof d2.mid.in[0]));
  fcalls = 0; int n = 3; R(sizeof(int[f1() + n])); R(fcalls); R(sizeof(f1())); R(fcalls); R(sizeof(char[n][f1() + 1])); R(fcalls); int vl[f1() + 2]; R(sizeof vl); R(fcalls); R(_Alignof(int[f1()])); R(fcalls);
  int c = 1; int *ip = &c; void *vp = ip; char *cp = (char *)ip; R(sizeof(c ? ip : 0)); R(sizeof(*(c ? ip : 0))); R(sizeof(*(c ? 0 : ip))); R((c ? ip : 0) == ip); R((c ? vp : ip) == vp); R(sizeof(c ? cp : cp + 1)); R((c ? (void *)0 : ip) == 0); R(sizeof(c ? 1 : 2L)); R(sizeof(c ? 1u : -1)); R((c ? 1u : -1) > 0); R((0 ? 1u : -1) > 0); R(sizeof(c ? (char)1 : (short)2)); R(sizeof(c ? 1.0f : 2)); R(sizeof(c ? 1.0L : 2.0f));
  int i2 = 5; R((i2, i2 + 1)); R(sizeof(i2, (char)i2)); R((i2++, i2++, i2)); R((c ? i2 : 0)); int arr[3] = { 10, 20, 30 }; R((c ? arr : arr + 1)[1]); R(*(c ? &arr[2] : &arr[0])); R((&arr[1])[c]); R(c[arr]); R((arr + 1)[-1]); R(*(arr + 2) - *arr); R(&arr[3] - arr); R(sizeof arr / sizeof arr[0]); R(sizeof &arr[0]); R(sizeof *&arr[0]);
  unsigned char uc = 200; signed char sc = -100; R(uc + sc); R(uc * 2); R((unsigned char)(uc * 2)); R(sc * 2); R((signed char)(sc * 2)); R(uc >> 1); R(sc >> 1); R(uc << 1); R(sc << 1 < 0); R(uc & sc); R(uc | sc); R(uc ^ sc); R(~uc); R(-uc); R(!uc); R(uc / sc); R(uc % sc); R(sc / uc); R(sc % 7); R(uc > sc); R(uc == 200); R(sc == -100); R((char)uc == (char)200);
  long big = 0x123456789abcdefL; int sm = big; short sh = big; char ch = big; unsigned us3 = big; R(sm); R(sh); R(ch); R(us3); R((int)(big >> 32)); R((short)(big >> 4)); R((unsigned char)(big >> 8)); R(big >> 60); R(big << 4 >> 4 == big); R((unsigned long)big << 8 >> 8 == big); R(big * 16 / 16 == big); R(big % 1000003); R(big / 1000003); R(-big % 1000003); R(big & -big); R(big ^ big >> 1);
  { enum SE { SE_N = -1, SE_P = 1 }; enum UE { UE_A, UE_B };
    enum SE se = SE_N; enum UE ue = (enum UE)-1; volatile enum SE vse = SE_N; volatile enum UE vue = (enum UE)-1;
    R((double)se * 4); R((double)ue / 1024); R((float)vse * 4); R((long double)vue / 1024); R((long)se); R((long)ue); R((unsigned long)vse >> 60); R(se < 0); R(ue < 0); R(vse < SE_P); R(vue > UE_B); R(sizeof(se + 0)); R((se + 0) < 0); R((ue + 0) < 0);
    long l1 = se, l2 = ue; double d1 = se; float f1 = ue; long double ld1 = vse; unsigned long ul1 = vue; short sh1 = se; R(l1); R(l2); R(d1 * 8); R(f1 / 4096); R(ld1 * 8); R(ul1); R(sh1); R(se * 2L); R(ue / 2L); R(-ue > 0); R(~se); R(!ue);
    ue = 2.9; se = -2.9; R(ue); R(se); ue = (enum UE)3000000000.0; R(ue > 0); R((long)ue); }
  for (int i = 0; i < nr; i++) printf("%d=%ld\n", i, results[i]);
  return 0;
}
