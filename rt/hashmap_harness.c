// C17 monitor: hashmap.c from the tree under test is #included so that statics are reachable.
// Build: gcc -O1 -g -fsanitize=address,undefined -I<snapshot> -DHASHMAP_C='"<snapshot>/hashmap.c"' hashmap_harness.c
// Modes:  small <depth>            exhaustive histories over 3 colliding keys (iterative deepening)
//         random <seed> <ops> <nkeys>   long random history against a reference model
// Output: lines "VIOLATION <kind> <history/invariant>" and a final "STATS ..." line.
#include HASHMAP_C
#include <signal.h>

void error(char *fmt, ...) {
  va_list ap;
  va_start(ap, fmt);
  printf("VIOLATION abort internal-error:");
  vprintf(fmt, ap);
  printf("\n");
  fflush(stdout);
  _exit(3);
}
char *format(char *fmt, ...) { return ""; }

static void on_abrt(int sig) {
  const char m[] = "VIOLATION abort SIGABRT(assertion)\n";
  write(1, m, sizeof m - 1);
  _exit(4);
}

// ---------- structural invariants --------------------------------------
static long inv_checks;
static const char *check_invariants(HashMap *map) {
  inv_checks++;
  if (!map->buckets)
    return map->used == 0 && map->capacity == 0 ? NULL : "fields-without-buckets";
  int nonnull = 0, empty = 0;
  for (int i = 0; i < map->capacity; i++) {
    HashEntry *e = &map->buckets[i];
    if (e->key == NULL) { empty++; continue; }
    nonnull++;
    if (e->key == TOMBSTONE) continue;
    for (int j = i + 1; j < map->capacity; j++) {
      HashEntry *f = &map->buckets[j];
      if (f->key && f->key != TOMBSTONE && f->keylen == e->keylen && !memcmp(f->key, e->key, e->keylen))
        return "duplicate-live-key";
    }
    // reachable from its home slot without crossing an empty slot
    uint64_t h = fnv_hash(e->key, e->keylen);
    for (int k = 0; k < map->capacity; k++) {
      int s = (h + k) % map->capacity;
      if (s == i) break;
      if (map->buckets[s].key == NULL) return "live-key-unreachable";
    }
  }
  if (map->used != nonnull) return "used-count-mismatch";
  if (empty == 0) return "no-empty-slot";
  return NULL;
}

// ---------- small scope ---------------------------------------------------
#define NK 3
static char *skeys[NK];
static long histories, steps;
static int found;

typedef struct { int present[NK]; long val[NK]; } Model;

static const char *opname(int op) { return op == 0 ? "put" : op == 1 ? "get" : "del"; }

static void report(int *hist, int n, const char *what) {
  printf("VIOLATION api %s after:", what);
  for (int i = 0; i < n; i++) printf(" %s(%c)", opname(hist[i] / NK), 'a' + hist[i] % NK);
  printf("\n");
  found++;
}

static int compare_all(HashMap *map, Model *m, int *hist, int n) {
  for (int k = 0; k < NK; k++) {
    void *v = hashmap_get(map, skeys[k]);
    long want = m->present[k] ? m->val[k] : 0;
    if ((long)v != want) {
      char buf[64];
      snprintf(buf, sizeof buf, "get(%c)=%ld-expected-%ld", 'a' + k, (long)v, want);
      report(hist, n, buf);
      return 0;
    }
  }
  const char *inv = check_invariants(map);
  if (inv) { report(hist, n, inv); return 0; }
  return 1;
}

static void dfs(HashMap *map, Model *m, int *hist, int n, int depth) {
  if (n == depth) { histories++; return; }
  for (int op = 0; op < 3 * NK && !found; op++) {
    int kind = op / NK, k = op % NK;
    // copy state
    HashMap m2 = *map;
    if (map->buckets) {
      m2.buckets = malloc(sizeof(HashEntry) * map->capacity);
      memcpy(m2.buckets, map->buckets, sizeof(HashEntry) * map->capacity);
    }
    Model mm = *m;
    hist[n] = op;
    steps++;
    if (kind == 0) {
      long v = 1000 + n * 10 + k + 1;
      hashmap_put(&m2, skeys[k], (void *)v);
      mm.present[k] = 1; mm.val[k] = v;
    } else if (kind == 1) {
      void *v = hashmap_get(&m2, skeys[k]);
      long want = mm.present[k] ? mm.val[k] : 0;
      if ((long)v != want) { report(hist, n + 1, "get-answer"); }
    } else {
      hashmap_delete(&m2, skeys[k]);
      mm.present[k] = 0;
    }
    if (!found && compare_all(&m2, &mm, hist, n + 1))
      dfs(&m2, &mm, hist, n + 1, depth);
    free(m2.buckets);
  }
}

static char *mkkey(long n) { char *s = malloc(24); snprintf(s, 24, "k%ld", n); return s; }

// find NK keys whose home slots (mod 16) are base, base+d1, base+d2
static void pick_keys(int base, int d1, int d2) {
  int want[NK] = {base % 16, (base + d1) % 16, (base + d2) % 16};
  int got = 0;
  for (long n = 0; got < NK; n++) {
    char *s = mkkey(n);
    if ((int)(fnv_hash(s, strlen(s)) % 16) == want[got]) skeys[got++] = s; else free(s);
  }
}

static int small(int depth) {
  int layouts[][3] = {{3, 0, 0}, {15, 0, 0}, {14, 1, 2}, {5, 1, 1}, {15, 1, 0}};
  for (unsigned L = 0; L < sizeof layouts / sizeof *layouts && !found; L++) {
    pick_keys(layouts[L][0], layouts[L][1], layouts[L][2]);
    int dmax = (L == 0) ? depth : depth - 1;
    for (int d = 1; d <= dmax && !found; d++) {
      HashMap map = {};
      Model m = {};
      int hist[16];
      dfs(&map, &m, hist, 0, d);
    }
  }
  printf("STATS mode=small histories=%ld steps=%ld invariant_checks=%ld violations=%d\n", histories, steps, inv_checks, found);
  return found ? 1 : 0;
}

// ---------- long random ---------------------------------------------------
static uint64_t rs;
static uint64_t rnd(void) { rs ^= rs << 13; rs ^= rs >> 7; rs ^= rs << 17; return rs; }

static int longrun(uint64_t seed, long ops, int nkeys) {
  rs = seed * 0x9E3779B97F4A7C15ull + 1;
  // keys whose hashes agree in the low 12 bits up to a small window: they collide at every capacity <= 4096
  char **keys = malloc(sizeof(char *) * nkeys);
  int *klen = malloc(sizeof(int) * nkeys);
  int window = 1 + seed % 6;
  int got = 0;
  long start = (seed % 1000) * 100000;
  for (long n = start; got < nkeys; n++) {
    char *s = mkkey(n);
    if ((int)(fnv_hash(s, strlen(s)) & 4095) < window || (got % 5 == 4)) { keys[got] = s; klen[got] = strlen(s); got++; } else free(s);
  }
  // one prefix key sharing storage with a longer key (put2/get2/delete2 with explicit length)
  if (nkeys >= 2) { keys[1] = keys[0]; klen[1] = klen[0] - 1; }
  int *present = calloc(nkeys, sizeof(int));
  long *val = calloc(nkeys, sizeof(long));
  HashMap map = {};
  long gets = 0, puts = 0, dels = 0, rehashes = 0, tomb_reuse = 0, mismatches = 0;
  int lastcap = 0;
  HashEntry *lastb = NULL;
  int active = 4;  // active key-set size grows and shrinks to cross the rehash threshold in both directions
  for (long i = 0; i < ops; i++) {
    if (i % 4096 == 0) active = 4 + rnd() % (nkeys - 3);
    int k = rnd() % active;
    int r = rnd() % 10;
    if (r < 4) {
      long v = i + 1;
      hashmap_put2(&map, keys[k], klen[k], (void *)v);
      present[k] = 1; val[k] = v; puts++;
    } else if (r < 7) {
      hashmap_delete2(&map, keys[k], klen[k]);
      present[k] = 0; dels++;
    }
    // observation after every operation
    int g = rnd() % active;
    void *v = hashmap_get2(&map, keys[g], klen[g]);
    gets++;
    long want = present[g] ? val[g] : 0;
    if ((long)v != want) {
      printf("VIOLATION api random-history step=%ld get(key#%d)=%ld expected %ld (seed=%lu nkeys=%d)\n", i, g, (long)v, want, (unsigned long)seed, nkeys);
      mismatches++;
      break;
    }
    int changed = map.buckets != lastb;
    if (changed) { rehashes++; lastb = map.buckets; lastcap = map.capacity; }
    if (i % 64 == 0 || changed) {
      const char *inv = check_invariants(&map);
      if (inv) { printf("VIOLATION invariant %s step=%ld (seed=%lu nkeys=%d)\n", inv, i, (unsigned long)seed, nkeys); mismatches++; break; }
    }
  }
  // final sweep
  for (int g = 0; g < nkeys && !mismatches; g++) {
    void *v = hashmap_get2(&map, keys[g], klen[g]);
    long want = present[g] ? val[g] : 0;
    if ((long)v != want) { printf("VIOLATION api final-sweep get(key#%d)=%ld expected %ld (seed=%lu)\n", g, (long)v, want, (unsigned long)seed); mismatches++; }
  }
  int tombs = 0;
  for (int i = 0; i < map.capacity; i++) if (map.buckets[i].key == TOMBSTONE) tombs++;
  (void)tomb_reuse;
  printf("STATS mode=random seed=%lu ops=%ld puts=%ld dels=%ld gets=%ld rehashes=%ld final_capacity=%d tombstones=%d invariant_checks=%ld violations=%ld\n",
         (unsigned long)seed, ops, puts, dels, gets, rehashes, map.capacity, tombs, inv_checks, mismatches);
  return mismatches ? 1 : 0;
}

// ---------- churn: a stable set of live keys while ever new keys are inserted and deleted -------------------
// Tombstones accumulate until a rehash that does not grow the table purges them; the live keys must survive it.
static int churn(uint64_t seed, int live, long pairs) {
  rs = seed * 0x9E3779B97F4A7C15ull + 7;
  HashMap map = {};
  char **keys = malloc(sizeof(char *) * live);
  int *present = calloc(live, sizeof(int));
  for (int i = 0; i < live; i++) {
    keys[i] = mkkey(1000000 + seed * 1000 + i);
    hashmap_put(&map, keys[i], (void *)(long)(i + 1));
    present[i] = 1;
  }
  // delete a random subset so that live keys sit behind deleted neighbours in their probe paths
  for (int i = 0; i < live; i++)
    if (rnd() % 3 == 0) { hashmap_delete(&map, keys[i]); present[i] = 0; }
  long mism = 0, same_cap_purges = 0, sweeps = 0;
  int lastcap = map.capacity, lastused = map.used;
  for (long n = 0; n < pairs && !mism; n++) {
    char *t = mkkey(5000000 + seed * 100000 + n);
    hashmap_put(&map, t, (void *)-1L);
    if (rnd() % 4 == 0) { int k = rnd() % live; if (!present[k]) { hashmap_put(&map, keys[k], (void *)(long)(k + 1)); present[k] = 1; } }
    hashmap_delete(&map, t);
    if (rnd() % 5 == 0) { int k = rnd() % live; hashmap_delete(&map, keys[k]); present[k] = 0; }
    if (map.capacity == lastcap && map.used < lastused) same_cap_purges++;
    int purged = map.used < lastused || map.capacity != lastcap;
    lastcap = map.capacity; lastused = map.used;
    if (purged || n % 97 == 0) {
      sweeps++;
      for (int g = 0; g < live; g++) {
        void *v = hashmap_get(&map, keys[g]);
        long want = present[g] ? g + 1 : 0;
        if ((long)v != want) { printf("VIOLATION api churn step=%ld get(live#%d)=%ld expected %ld after %s (seed=%lu live=%d)\n", n, g, (long)v, want, purged ? "purging-rehash" : "probe", (unsigned long)seed, live); mism++; break; }
      }
      const char *inv = check_invariants(&map);
      if (inv && !mism) { printf("VIOLATION invariant %s churn step=%ld (seed=%lu)\n", inv, n, (unsigned long)seed); mism++; }
    }
    free(t);
  }
  printf("STATS mode=churn seed=%lu live=%d pairs=%ld same_capacity_purges=%ld sweeps=%ld final_capacity=%d invariant_checks=%ld violations=%ld\n",
         (unsigned long)seed, live, pairs, same_cap_purges, sweeps, map.capacity, inv_checks, mism);
  return mism ? 1 : 0;
}

int main(int argc, char **argv) {
  signal(SIGABRT, on_abrt);
  setvbuf(stdout, NULL, _IOLBF, 0);
  if (argc >= 3 && !strcmp(argv[1], "small")) return small(atoi(argv[2]));
  if (argc >= 5 && !strcmp(argv[1], "random")) return longrun(strtoull(argv[2], 0, 10), atol(argv[3]), atoi(argv[4]));
  if (argc >= 5 && !strcmp(argv[1], "churn")) return churn(strtoull(argv[2], 0, 10), atoi(argv[3]), atol(argv[4]));
  if (argc >= 2 && !strcmp(argv[1], "selftest")) { hashmap_test(); return 0; }
  fprintf(stderr, "usage\n");
  return 2;
}
