// LD_PRELOAD process-tree monitor for the chibicc driver (C14).
// Environment:  VERIF_LOG   append-only event log (one write(2) per record)
//               VERIF_CNT   directory for per-role counters
//               VERIF_FAULT "role:n:how"  how in exit1 exit2 segv kill  (n-th process of that role)
#define _GNU_SOURCE
#include <dlfcn.h>
#include <fcntl.h>
#include <signal.h>
#include <stdarg.h>
#include <stdio.h>
#include <stdlib.h>
#include <string.h>
#include <sys/file.h>
#include <sys/stat.h>
#include <unistd.h>

static char role[16] = "other";
static int logfd = -1;

static void logev(const char *op, const char *path) {
  if (logfd < 0) return;
  char buf[4400];
  int n = snprintf(buf, sizeof buf, "%d\t%s\t%s\t%s\n", (int)getpid(), role, op, path ? path : "");
  if (n > 0) write(logfd, buf, n < (int)sizeof buf ? n : (int)sizeof buf - 1);
}

__attribute__((constructor)) static void init(void) {
  char cmd[8192];
  int fd = open("/proc/self/cmdline", O_RDONLY);
  ssize_t n = fd >= 0 ? read(fd, cmd, sizeof cmd - 1) : 0;
  if (fd >= 0) close(fd);
  if (n <= 0) return;
  cmd[n] = 0;
  const char *a0 = cmd;
  const char *base = strrchr(a0, '/');
  base = base ? base + 1 : a0;
  if (!strcmp(base, "chibicc")) {
    strcpy(role, "driver");
    for (const char *p = cmd; p < cmd + n; p += strlen(p) + 1)
      if (!strcmp(p, "-cc1")) strcpy(role, "cc1");
  } else if (!strcmp(base, "as")) strcpy(role, "as");
  else if (!strcmp(base, "ld")) strcpy(role, "ld");
  else return;

  const char *lp = getenv("VERIF_LOG");
  if (lp) logfd = open(lp, O_WRONLY | O_APPEND | O_CREAT | O_CLOEXEC, 0644);
  // argv for the record
  char args[4096];
  int k = 0;
  for (const char *p = cmd; p < cmd + n && k < (int)sizeof args - 2; p += strlen(p) + 1) {
    int l = snprintf(args + k, sizeof args - k, "%s ", p);
    k += l;
    if (k >= (int)sizeof args) { k = sizeof args - 1; break; }
  }
  args[k] = 0;
  logev("start", args);

  int idx = 0;
  const char *cd = getenv("VERIF_CNT");
  if (cd) {
    char path[4096];
    snprintf(path, sizeof path, "%s/%s", cd, role);
    int cfd = open(path, O_RDWR | O_CREAT | O_APPEND, 0644);
    if (cfd >= 0) {
      flock(cfd, LOCK_EX);
      struct stat st;
      fstat(cfd, &st);
      idx = st.st_size + 1;
      write(cfd, "x", 1);
      flock(cfd, LOCK_UN);
      close(cfd);
    }
  }
  const char *f = getenv("VERIF_FAULT");
  if (f) {
    char r[16], how[16];
    int want;
    if (sscanf(f, "%15[^:]:%d:%15s", r, &want, how) == 3 && !strcmp(r, role) && want == idx) {
      logev("fault", how);
      if (!strcmp(how, "exit1")) _exit(1);
      if (!strcmp(how, "exit2")) _exit(2);
      if (!strcmp(how, "segv")) { signal(SIGSEGV, SIG_DFL); raise(SIGSEGV); }
      if (!strcmp(how, "kill")) raise(SIGKILL);
    }
  }
}

int mkstemp(char *tmpl) {
  static int (*real)(char *);
  if (!real) real = dlsym(RTLD_NEXT, "mkstemp");
  int fd = real(tmpl);
  if (fd >= 0) logev("mkstemp", tmpl);
  return fd;
}

int unlink(const char *path) {
  static int (*real)(const char *);
  if (!real) real = dlsym(RTLD_NEXT, "unlink");
  int r = real(path);
  logev(r == 0 ? "unlink" : "unlink-failed", path);
  return r;
}

int rename(const char *a, const char *b) {
  static int (*real)(const char *, const char *);
  if (!real) real = dlsym(RTLD_NEXT, "rename");
  int r = real(a, b);
  if (r == 0) { logev("rename-from", a); logev("rename-to", b); }
  return r;
}

FILE *fopen(const char *path, const char *mode) {
  static FILE *(*real)(const char *, const char *);
  if (!real) real = dlsym(RTLD_NEXT, "fopen");
  FILE *f = real(path, mode);
  if (f && (mode[0] == 'w' || mode[0] == 'a')) logev("create", path);
  return f;
}

FILE *fopen64(const char *path, const char *mode) {
  static FILE *(*real)(const char *, const char *);
  if (!real) real = dlsym(RTLD_NEXT, "fopen64");
  FILE *f = real(path, mode);
  if (f && (mode[0] == 'w' || mode[0] == 'a')) logev("create", path);
  return f;
}

int open(const char *path, int flags, ...) {
  static int (*real)(const char *, int, ...);
  if (!real) real = dlsym(RTLD_NEXT, "open");
  mode_t m = 0;
  if (flags & (O_CREAT | O_TMPFILE)) { va_list ap; va_start(ap, flags); m = va_arg(ap, mode_t); va_end(ap); }
  int fd = real(path, flags, m);
  if (fd >= 0 && (flags & (O_CREAT | O_TRUNC))) logev("create", path);
  return fd;
}

int open64(const char *path, int flags, ...) {
  static int (*real)(const char *, int, ...);
  if (!real) real = dlsym(RTLD_NEXT, "open64");
  mode_t m = 0;
  if (flags & (O_CREAT | O_TMPFILE)) { va_list ap; va_start(ap, flags); m = va_arg(ap, mode_t); va_end(ap); }
  int fd = real(path, flags, m);
  if (fd >= 0 && (flags & (O_CREAT | O_TRUNC))) logev("create", path);
  return fd;
}
