#include <stdio.h>
#include <stdarg.h>
#include <string.h>
#include <stdlib.h>
typedef struct { int a; char b; double c; } T;
typedef struct { char c[3]; } S3;
typedef struct { long a, b, c; } S24;
static T mk(int a) { T t = { a, 'x', a * 1.5 }; return t; }
static S3 mk3(int a) { S3 s = {{a, a + 1, a + 2}}; return s; }
static S24 mk24(long a) { S24 s = {a, a * 2, a * 3}; return s; }
static int sum(int n, ...) { va_list ap; va_start(ap, n); int s = 0; for (int i = 0; i < n; i++) s += va_arg(ap, int); va_end(ap); return s; }
static double dsum(int n, ...) { va_list ap; va_start(ap, n); double s = 0; for (int i = 0; i < n; i++) s += va_arg(ap, double); va_end(ap); return s; }
static long mix(const char *fmt, ...) { va_list ap; va_start(ap, fmt); long s = 0; for (; *fmt; fmt++) switch (*fmt) { case 'i': s += va_arg(ap, int); break; case 'l': s += va_arg(ap, long); break; case 'd': s += (long)va_arg(ap, double); break; case 'p': s += *va_arg(ap, int *); break; case 'L': s += (long)va_arg(ap, long double); break; case 't': s += va_arg(ap, S24).c; break; } va_end(ap); return s; }
static long vfwd(const char *fmt, va_list ap) { long s = 0; for (; *fmt; fmt++) s += va_arg(ap, int); return s; }
static long fwd(const char *fmt, ...) { va_list ap, aq; va_start(ap, fmt); va_copy(aq, ap); long r = vfwd(fmt, ap) * 100 + vfwd(fmt, aq); va_end(ap); va_end(aq); return r; }
static int cnt; static int side(int v) { cnt++; return v; }
static int fact(int n) { return n <= 1 ? 1 : n * fact(n - 1); }
static int apply(int (*f)(int), int x) { return f(x); }
static int twice(int x) { return 2 * x; }
static int counter(void) { static int c = 10; return c++; }
static char *strrev(char *s) { for (char *a = s, *b = s + strlen(s) - 1; a < b; a++, b--) { char t = *a; *a = *b; *b = t; } return s; }
enum Color { RED, GREEN = 5, BLUE };
struct BF { int a : 3; unsigned b : 3; signed c : 1; unsigned d : 1; long e : 33; };
union U { int i; unsigned char b[4]; float f; };
static long results[600]; static int nr;
#define R(e) (results[nr++] = (long)(e))
#include <setjmp.h>
static jmp_buf sjb;
static int sj_depth(int n) { volatile long pad[8] = {n, n, n, n, n, n, n, n}; if (n == 0) longjmp(sjb, 42); return sj_depth(n - 1) + (int)pad[0]; }
/* setjmp in every context C11 7.13.1.1p4 allows; each branch taken is recorded, every loop is bounded */
static void sj_contexts(void) {
  static int c1, c2, c3, c4, c5, c6;
  if (setjmp(sjb) == 0) { R(100); sj_depth(50); } else R(101);
  if (setjmp(sjb) != 42) { if (c1++ < 3) { R(110 + c1); sj_depth(10); } } else R(119);
  if (42 == setjmp(sjb)) R(129); else if (c2++ < 3) { R(120 + c2); sj_depth(7); }
  switch (setjmp(sjb)) { case 0: R(130); sj_depth(5); break; case 42: R(131); break; default: R(132); }
  if (!setjmp(sjb)) { R(140); sj_depth(3); } else R(141);
  if (setjmp(sjb)) R(151); else { R(150); sj_depth(4); }
  while (setjmp(sjb) < 42) { if (c3++ > 5) break; R(160); sj_depth(2); }
  while (setjmp(sjb) <= 41L) { if (c4++ > 5) break; R(170); sj_depth(2); }
  for (; setjmp(sjb) == 0; ) { if (c5++ > 5) break; R(180); sj_depth(6); }
  do { R(190 + c6); if (c6++ == 0) sj_depth(1); } while (0 && setjmp(sjb));
  if (setjmp(sjb) > 0x7fffffffL - 1) R(199); else if (c6++ < 3) { R(198); sj_depth(9); }
  (void)setjmp(sjb); R(200);
}
int main(void) {
  sj_contexts();
  T t = mk(3); T u = t; u.a++; R(t.a); R(u.a); R(mk(7).a); R((int)mk(2).c); R(mk3(5).c[2]); R(mk24(7).c); R((u = mk(9)).a); R((t, u).a); R((1 ? t : u).a); R((0 ? t : u).b);
  R(sum(3, 1, 2, 3)); R(sum(0)); R((long)dsum(2, 1.5, 2.5)); R(sum(8, 1, 2, 3, 4, 5, 6, 7, 8)); R((long)dsum(10, 1., 2., 3., 4., 5., 6., 7., 8., 9., 10.));
  int q = 5; R(mix("ildpLt", 1, 2L, 3.5, &q, 4.5L, mk24(2))); R(mix("tiLtdl", mk24(1), 2, 1.0L, mk24(3), 2.5, 7L)); R(fwd("iii", 1, 2, 3)); R(fwd("iiiiiiii", 1, 2, 3, 4, 5, 6, 7, 8));
  cnt = 0; R(side(0) && side(1)); R(cnt); R(side(1) || side(1)); R(cnt); R(side(1) ? side(2) : side(3)); R(cnt); R((side(1), side(2))); R(cnt);
  R(fact(10)); R(apply(twice, 21)); R(apply(fact, 5)); R(counter()); R(counter()); R(counter());
  char buf[16] = "hello"; R(strrev(buf)[0]); R(strlen(buf)); R(strcmp(buf, "olleh"));
  enum Color c = BLUE; R(c); R(sizeof c); R(RED + GREEN); switch (c) { case RED: R(1); break; case BLUE: R(3); case GREEN: R(2); break; }
  struct BF bf = { -1, 7, -1, 1, -1 }; R(bf.a); R(bf.b); R(bf.c); R(bf.d); R(bf.e); bf.a += 5; bf.b += 5; bf.e = 1L << 32; R(bf.a); R(bf.b); R(bf.e); R(bf.e >> 31); R(sizeof bf); R(bf.a < bf.b); R(-bf.b); R(bf.b - 8 < 0);
  union U un; un.f = 1.0f; R(un.i); R(un.b[3]); un.i = -1; R(un.b[0]);
  int a[5] = {5, 4, 3, 2, 1}, *p = a; R(*p++); R(*++p); R(p - a); R(p[-1]); R(*(a + 4)); R(4[a]); R(&a[5] - p); R(p > a);
  char ch = -1; unsigned char uc = ch; signed char sc = 200; short sh = 70000; unsigned short us = -1; R(ch); R(uc); R(sc); R(sh); R(us); R(ch == uc); R(ch < uc); R((char)300); R((unsigned char)-1 >> 1); R(sc >> 1); R(us * us > 0);
  unsigned ui = -1; int si = -1; long sl = -1; unsigned long ul = -1; R(ui > si); R(si < ui); R(sl < ui); R(ul > sl); R(si >> 1); R(ui >> 1); R((long)ui); R((long)si); R((unsigned long)si); R(ui + 1); R(si + 1u == 0); R(-1 < 0u); R(-1L < 0u); R(sizeof(si + ui)); R(sizeof(sl + ui)); R(sizeof(ch + ch)); R(sizeof('a')); R(sizeof((char)1)); R(sizeof(1 ? ch : ch));
  double d = 7.9; float f = -7.9f; long double ld = 1e10L; R((int)d); R((int)f); R((long)ld); R((unsigned char)d); R((int)(d + f)); R(d > f); R((int)(ld / 3)); R((long)(f * 2)); R((int)-0.9); R((unsigned)3.9e9); R((long)1e18); R(d == 7.9); R(f == -7.9); R(f == -7.9f); R((float)d == 7.9f); R(0.1 + 0.2 == 0.3); R(0.1f + 0.2f == 0.3f); R(1.0 / 0 > 1e308); R((0.0 / 0) != (0.0 / 0));
  long i64 = 1L << 40; int i32 = i64; short i16 = i64 + 70000; R(i32); R(i16); R(i64 >> 38); R((int)(i64 >> 9)); R(i64 * 3 / 2); R(i64 % 1000); R(-i64 / 7); R(-i64 % 7); R(~i64); R(i64 ^ (i64 >> 1)); R(1 << 31); R(1u << 31); R(1L << 31);
  int z = 0; for (int i = 0; i < 10; i++) { if (i % 2) continue; if (i > 6) break; z += i; } R(z); z = 0; int k = 10; while (k --> 0) z += k; R(z); do z--; while (z > 40); R(z);
  int sw = 0; for (int i = 0; i < 6; i++) switch (i) { case 0: sw += 1; case 1: sw += 10; break; case 2 ... 3: sw += 100; break; default: sw += 1000; } R(sw);
  int g = 0; goto mid; for (;;) { g += 100; mid: g++; if (g > 1) break; } R(g);
  T arr[3] = { {1, 'a', 1.0}, {2}, [2].c = 3.5 }; T *pt = arr; R(pt->a); R((++pt)->a); R(pt++->b); R((int)pt->c); R(pt - arr); R(sizeof arr / sizeof *arr); R((int)arr[2].c + arr[1].b);
  char *strs[] = { "one", "two", "three" }; char **ps = strs; R(**ps); R(*ps[1]); R(ps[2][2]); R(*++*ps); R(strlen(*ps)); R(sizeof strs); R(sizeof "three"); R("abc"[1]); R(*"x");
  int m[3][4]; for (int i = 0; i < 3; i++) for (int j = 0; j < 4; j++) m[i][j] = i * 10 + j; int (*pm)[4] = m; R(pm[1][2]); R((*(pm + 2))[3]); R(*(*pm + 5)); R(sizeof m); R(sizeof *pm); R(sizeof **pm); R(&m[2][3] - &m[0][0]); R(m[1] - m[0]);
  int n = 4; int vla[n][n + 1]; R(sizeof vla); R(sizeof vla[0]); vla[3][4] = 9; int (*pv)[n + 1] = vla; R(pv[3][4]); R((char *)(pv + 1) - (char *)pv); n = 10; R(sizeof vla);
  int cl = 0; for (int i = 0; i < 3; i++) { int *pp = (int[]){i, i * 2}; cl += pp[1]; } R(cl); R(((T){.a = 4}).a); R((*(T[]){{1}, {2}}).a + ((T[]){{1}, {2}})[1].a);
  long x = 5; x += x++ * 0 + 1; R(x); x = 5; x <<= 2; x |= 3; x ^= 1; x %= 7; x -= -x; R(x); x = 7; R(x++ + 1); R(++x); R(x-- - 1); R(--x); R(-x); R(!x); R(~x); R(+x);
  int *np = 0; R(np == 0); R(!np); R(np ? 1 : 2); R((long)(np + 1)); R(sizeof np); R(sizeof *np); void *vp = &x; R(*(long *)vp); R((char *)vp + 1 > (char *)vp);
  for (int i = 0; i < nr; i++) printf("%d=%ld\n", i, results[i]);
  return 0;
}
