#define _GNU_SOURCE
#include <stdio.h>
#include <stdlib.h>
#include <string.h>
#include <arpa/inet.h>
#include <sys/select.h>
#include <sys/socket.h>
#include <netinet/in.h>
#include <pthread.h>
#include <signal.h>
#include <dirent.h>
#include <time.h>
#include <poll.h>
#include <regex.h>
#include <wctype.h>
#include <wchar.h>
#include <fenv.h>
#include <threads.h>
#include <uchar.h>
#include <inttypes.h>
#include <errno.h>
#include <assert.h>
#include <locale.h>
#include <limits.h>
#include <sys/time.h>
#include <sys/resource.h>
#include <sys/mman.h>
#include <sys/wait.h>
#include <unistd.h>
#include <fcntl.h>
static long results[400]; static int nr;
#define R(e) (results[nr++] = (long)(e))
static volatile sig_atomic_t got;
static void handler(int s, siginfo_t *si, void *u) { (void)u; got = s + (si != 0); }
static int thr(void *a) { *(int *)a += 5; return 7; }
static void *pthr(void *a) { *(long *)a *= 3; return a; }
static mtx_t mtx; static once_flag once = ONCE_FLAG_INIT; static int onced; static void do_once(void) { onced++; }
int main(void) {
  R(htons(0x1234)); R(ntohl(htonl(0xdeadbeef)) == 0xdeadbeef); R(htonl(1) >> 24);
  fd_set fs; FD_ZERO(&fs); FD_SET(3, &fs); FD_SET(70, &fs); R(FD_ISSET(3, &fs) != 0); R(FD_ISSET(4, &fs) != 0); R(FD_ISSET(70, &fs) != 0); FD_CLR(3, &fs); R(FD_ISSET(3, &fs) != 0); R(sizeof fs);
  struct sockaddr_in sa; memset(&sa, 0, sizeof sa); sa.sin_family = AF_INET; sa.sin_port = htons(80); sa.sin_addr.s_addr = htonl(INADDR_LOOPBACK); char ip[INET_ADDRSTRLEN]; R(inet_ntop(AF_INET, &sa.sin_addr, ip, sizeof ip) != 0); R(strcmp(ip, "127.0.0.1")); R(sizeof sa); R(sizeof(struct sockaddr_storage)); R(sizeof(struct sockaddr_in6));
  pthread_mutex_t pm = PTHREAD_MUTEX_INITIALIZER; R(pthread_mutex_lock(&pm)); R(pthread_mutex_unlock(&pm)); pthread_t pt; long pv = 14; R(pthread_create(&pt, 0, pthr, &pv)); void *pr; R(pthread_join(pt, &pr)); R(pv); R(pr == &pv); R(sizeof(pthread_mutex_t)); R(sizeof(pthread_cond_t)); R(sizeof(pthread_attr_t));
  thrd_t th; int tv = 1, tres = 0; R(thrd_create(&th, thr, &tv) == thrd_success); R(thrd_join(th, &tres) == thrd_success); R(tv); R(tres); R(mtx_init(&mtx, mtx_plain) == thrd_success); R(mtx_lock(&mtx) == thrd_success); R(mtx_unlock(&mtx) == thrd_success); call_once(&once, do_once); call_once(&once, do_once); R(onced);
  struct sigaction act; memset(&act, 0, sizeof act); act.sa_sigaction = handler; act.sa_flags = SA_SIGINFO; sigemptyset(&act.sa_mask); R(sigaction(SIGUSR1, &act, 0)); R(raise(SIGUSR1)); R(got); R(sizeof act); R(sizeof(sigset_t)); R(sizeof(siginfo_t)); sigset_t ss; sigemptyset(&ss); sigaddset(&ss, SIGINT); R(sigismember(&ss, SIGINT)); R(sigismember(&ss, SIGTERM));
  struct tm tmv; memset(&tmv, 0, sizeof tmv); tmv.tm_year = 100; tmv.tm_mon = 1; tmv.tm_mday = 29; tmv.tm_hour = 12; setenv("TZ", "UTC", 1); tzset(); time_t tt = mktime(&tmv); R(tt); R(tmv.tm_wday); R(tmv.tm_yday); char tb[64]; R(strftime(tb, sizeof tb, "%Y-%m-%d %H:%M:%S %j", gmtime(&tt))); R(strcmp(tb, "2000-02-29 12:00:00 060")); R(sizeof(struct tm)); R(sizeof(struct timespec)); R(sizeof(struct timeval)); R(difftime(tt + 5, tt) == 5.0);
  struct pollfd pf = { .fd = -1, .events = POLLIN }; R(poll(&pf, 1, 0)); R(sizeof pf);
  regex_t re; R(regcomp(&re, "^a(b+)c$", REG_EXTENDED)); regmatch_t rm[2]; R(regexec(&re, "abbbc", 2, rm, 0)); R(rm[1].rm_eo - rm[1].rm_so); R(regexec(&re, "ac", 0, 0, 0) == REG_NOMATCH); regfree(&re); R(sizeof(regex_t)); R(sizeof(regmatch_t));
  R(iswalpha(L'x') != 0); R(towupper(L'a')); R(wcslen(L"hello")); wchar_t wb[8]; R(swprintf(wb, 8, L"%d-%ls", 42, L"ab")); R(wb[3]); R(wcscmp(wb, L"42-ab")); char16_t c16[] = u"hi"; char32_t c32[] = U"hey"; R(sizeof c16 + sizeof c32); mbstate_t ms; memset(&ms, 0, sizeof ms); char mbb[8]; R(c32rtomb(mbb, 0x20AC, &ms));
  R(fegetround() == FE_TONEAREST); R(fesetround(FE_UPWARD)); volatile double one = 1.0, three = 3.0; double up = one / three; R(fesetround(FE_DOWNWARD)); double down = one / three; R(up > down); fesetround(FE_TONEAREST); feclearexcept(FE_ALL_EXCEPT); volatile double zero = 0.0; volatile double inf = one / zero; (void)inf; R(fetestexcept(FE_DIVBYZERO) != 0); R(fetestexcept(FE_INVALID) != 0);
  imaxdiv_t idv = imaxdiv(-7, 2); R(idv.quot); R(idv.rem); div_t dv = div(7, -2); R(dv.quot * 10 + dv.rem); ldiv_t ldv = ldiv(1L << 40, 1000); R(ldv.rem); R(strtoimax("-123", 0, 10)); R(strtoumax("ff", 0, 16)); char ib[32]; R(snprintf(ib, sizeof ib, "%" PRIdMAX "|%" PRIx64 "|%" PRIu8, (intmax_t)-5, (uint64_t)255, (uint8_t)7)); R(strcmp(ib, "-5|ff|7"));
  errno = 0; R(strtol("99999999999999999999", 0, 10) == LONG_MAX); R(errno == ERANGE); errno = 0; R(open("/nonexistent/x", O_RDONLY)); R(errno == ENOENT); R(strlen(strerror(ENOENT)) > 0);
  struct rlimit rl; R(getrlimit(RLIMIT_NOFILE, &rl)); R(rl.rlim_cur > 0); R(sizeof rl); void *mp = mmap(0, 4096, PROT_READ | PROT_WRITE, MAP_PRIVATE | MAP_ANONYMOUS, -1, 0); R(mp != MAP_FAILED); ((char *)mp)[100] = 7; R(((char *)mp)[100]); R(munmap(mp, 4096));
  pid_t pid = fork(); if (pid == 0) _exit(42); int st; R(waitpid(pid, &st, 0) == pid); R(WIFEXITED(st)); R(WEXITSTATUS(st)); R(WIFSIGNALED(st));
  struct timeval tvl; R(gettimeofday(&tvl, 0)); R(tvl.tv_sec > 1000000000); struct timespec ts; R(clock_gettime(CLOCK_MONOTONIC, &ts)); R(ts.tv_nsec < 1000000000);
  DIR *dp = opendir("/"); R(dp != 0); int ents = 0; struct dirent *de; while ((de = readdir(dp))) ents += de->d_name[0] != 0; R(ents > 2); R(closedir(dp)); R(sizeof(struct dirent));
  assert(nr < 400); R(setlocale(LC_ALL, "C") != 0); struct lconv *lc = localeconv(); R(lc->decimal_point[0]);
  for (int i = 0; i < nr; i++) printf("%d=%ld\n", i, results[i]);
  return 0;
}
