// C16 stress harness and offline checker (gcc-compiled). Links against workers.o built by the compiler under test.
// usage: harness <threads> <ops-per-thread> <seed> [small]
#define _GNU_SOURCE
#include <pthread.h>
#include <sched.h>
#include <stdio.h>
#include <stdlib.h>
#include <string.h>
#include <stdint.h>

typedef unsigned long ul;
enum { F_ADDASSIGN, F_PREINC, F_POSTINC, F_SUBASSIGN, F_FETCHADD, F_FETCHSUB, F_MULODD, F_XOR, F_ORAND, F_EXCHANGE, F_CASLOOP, F_CLAIM, F_CASCALL, F_EXCHX, F_FETCHX, F_SIGNMOD, F_FLAGLOCK, F_TICKETLOCK, F_TREIBER, NFAM };
static const char *famname[] = {"op=add", "++pre", "post++", "op=sub", "fetch_add", "fetch_sub", "op=mul-odd", "op=xor", "fetch_or/and", "exchange", "cas-loop", "claim-release", "cas-loop-call-desired", "exchange_explicit", "fetch_add/sub_explicit", "signflip-op=mod", "atomic_flag-spinlock", "ticket-lock", "treiber-stack"};
static const char *wname[] = {"w1", "w2", "w4", "w8", "w1s", "w8s", "w4member", "w8pointer", "w8double", "w4float", "w2s"};
static const int wbits[] = {8, 16, 32, 64, 8, 64, 32, 64, 64, 32, 16};
static const int wfloat[] = {0, 0, 0, 0, 0, 0, 0, 0, 1, 1, 0};   // objects of floating type hold integral values: compared as numbers, not as bit patterns
static const char *stname[] = {"static", "automatic", "heap"};

#define DECL(S) \
  void w_addassign_##S(void *, long, ul *); void w_preinc_##S(void *, long, ul *); void w_postinc_##S(void *, long, ul *); void w_subassign_##S(void *, long, ul *); \
  void w_fetchadd_##S(void *, long, ul *); void w_fetchsub_##S(void *, long, ul *); void w_mulodd_##S(void *, long, ul *); void w_xor_##S(void *, long, ul *, ul); \
  void w_orand_##S(void *, long, ul *, ul); void w_exchange_##S(void *, long, ul *, ul); long w_casloop_##S(void *, long, ul *, long); void w_claim_##S(void *, long, ul *, ul); \
  long w_cascall_##S(void *, long, ul *, long); void w_exchx_##S(void *, long, ul *, ul); void w_fetchx_##S(void *, long, ul *);
DECL(u8) DECL(u16) DECL(u32) DECL(u64) DECL(i8) DECL(i64) DECL(m32) DECL(p64) DECL(i16)
void w_flaglock_u64(void *, long, ul *); void w_ticketlock_u64(void *, long, ul *); void w_treiber_u64(void *, long, ul *, ul); void set_treiber_next(long *);
void w_signmod_i8(void *, long, ul *, ul); void w_signmod_i16(void *, long, ul *, ul); void w_signmod_i32(void *, long, ul *, ul);
void w_addassign_d64(void *, long, ul *); void w_preinc_d64(void *, long, ul *); void w_postinc_d64(void *, long, ul *);
void w_addassign_f32(void *, long, ul *); void w_preinc_f32(void *, long, ul *); void w_postinc_f32(void *, long, ul *);
void *static_object(int which);
void with_automatic(int which, void (*run)(void *obj, void *ctx), void *ctx);

typedef void (*fn3)(void *, long, ul *);
typedef void (*fn4)(void *, long, ul *, ul);
typedef long (*fncas)(void *, long, ul *, long);
#define TAB(name) { (void *)w_##name##_u8, (void *)w_##name##_u16, (void *)w_##name##_u32, (void *)w_##name##_u64, (void *)w_##name##_i8, (void *)w_##name##_i64, (void *)w_##name##_m32, (void *)w_##name##_p64, 0, 0, (void *)w_##name##_i16 }
#define NVAR 11
static void *table[NFAM][NVAR] = { TAB(addassign), TAB(preinc), TAB(postinc), TAB(subassign), TAB(fetchadd), TAB(fetchsub), TAB(mulodd), TAB(xor), TAB(orand), TAB(exchange), TAB(casloop), TAB(claim),
                                   TAB(cascall), TAB(exchx), TAB(fetchx), {0}, {0}, {0}, {0} };
// checking rules shared with the plain spellings
static int canon(int fam) { return fam == F_CASCALL ? F_CASLOOP : fam == F_EXCHX ? F_EXCHANGE : fam == F_FETCHX ? F_FETCHADD : (fam == F_FLAGLOCK || fam == F_TICKETLOCK) ? F_POSTINC : fam; }

static void fill_float_variants(void) {
  table[F_ADDASSIGN][8] = (void *)w_addassign_d64; table[F_PREINC][8] = (void *)w_preinc_d64; table[F_POSTINC][8] = (void *)w_postinc_d64;
  table[F_SIGNMOD][4] = (void *)w_signmod_i8; table[F_SIGNMOD][10] = (void *)w_signmod_i16; table[F_SIGNMOD][2] = (void *)w_signmod_i32;   /* the 4-byte object as a control */
  table[F_FLAGLOCK][3] = (void *)w_flaglock_u64; table[F_TICKETLOCK][3] = (void *)w_ticketlock_u64; table[F_TREIBER][3] = (void *)w_treiber_u64;
  table[F_ADDASSIGN][9] = (void *)w_addassign_f32; table[F_PREINC][9] = (void *)w_preinc_f32; table[F_POSTINC][9] = (void *)w_postinc_f32;
}
static int ncpu_avail, cpus[256];
static pthread_barrier_t bar;

typedef struct { int fam, w, tid, nthreads; long n; void *obj; ul *log; long loglen; long cap; } Job;

static void *thread_main(void *arg) {
  Job *j = arg;
  cpu_set_t set;
  CPU_ZERO(&set);
  CPU_SET(cpus[j->tid % ncpu_avail], &set);
  pthread_setaffinity_np(pthread_self(), sizeof set, &set);
  pthread_barrier_wait(&bar);
  void *f = table[j->fam][j->w];
  switch (canon(j->fam)) {
  case F_SIGNMOD: case F_TREIBER: ((fn4)f)(j->obj, j->n, j->log, (ul)j->tid); j->loglen = j->n; break;
  case F_XOR: ((fn4)f)(j->obj, j->n, j->log, 1ul << (j->tid % wbits[j->w])); j->loglen = j->n; break;
  case F_ORAND: ((fn4)f)(j->obj, j->n, j->log, 1ul << (j->tid % wbits[j->w])); j->loglen = 2 * j->n; break;
  case F_EXCHANGE: ((fn4)f)(j->obj, j->n, j->log, 1 + (ul)j->tid * j->n); j->loglen = j->n; break;
  case F_CASLOOP: j->loglen = 3 * ((fncas)f)(j->obj, j->n, j->log, j->cap); break;
  case F_CLAIM: ((fn4)f)(j->obj, j->n, j->log, 1 + (ul)j->tid); j->loglen = 4; break;
  default: ((fn3)f)(j->obj, j->n, j->log); j->loglen = j->n; break;
  }
  return 0;
}

static ul maskw(int w) { return wbits[w] == 64 ? ~0ul : (1ul << wbits[w]) - 1; }
static ul load_obj(void *obj, int w) {
  if (wfloat[w]) return wbits[w] == 64 ? (ul)*(volatile double *)obj : (ul)*(volatile float *)obj;
  switch (wbits[w]) { case 8: return *(volatile uint8_t *)obj; case 16: return *(volatile uint16_t *)obj; case 32: return *(volatile uint32_t *)obj; default: return *(volatile uint64_t *)obj; }
}
static void store_obj(void *obj, int w, ul v) {
  if (wfloat[w]) { if (wbits[w] == 64) *(volatile double *)obj = (double)v; else *(volatile float *)obj = (float)v; return; }
  switch (wbits[w]) { case 8: *(volatile uint8_t *)obj = v; break; case 16: *(volatile uint16_t *)obj = v; break; case 32: *(volatile uint32_t *)obj = v; break; default: *(volatile uint64_t *)obj = v; }
}
static int cmp_ul(const void *a, const void *b) { ul x = *(const ul *)a, y = *(const ul *)b; return x < y ? -1 : x > y; }

long *treiber_next_array;
static long total_violations, total_ops, total_handoffs, total_casfail, phases;

typedef struct { int fam, w, st, nthreads; long n; } Phase;

static void violation(Phase *p, const char *kind, const char *detail) {
  printf("VIOLATION %s %s %s %s threads=%d n=%ld\n", kind, famname[p->fam], wname[p->w], stname[p->st], p->nthreads, p->n);
  if (detail) printf("  detail: %s\n", detail);
  total_violations++;
}

static void run_phase_on(void *obj, void *ctx) {
  Phase *p = ctx;
  int N = p->nthreads, w = p->w;
  ul M = maskw(w);
  long n = p->n;
  struct { int fam; } cp = { canon(p->fam) };
  ul init = (p->fam == F_MULODD) ? 1 : (p->fam == F_SUBASSIGN || p->fam == F_FETCHSUB) ? 7 : p->fam == F_SIGNMOD ? 2 : 0;
  store_obj(obj, w, init);
  Job *jobs = calloc(N, sizeof(Job));
  pthread_t *th = calloc(N, sizeof(pthread_t));
  long cap = n * 64 + 1024;
  for (int i = 0; i < N; i++) {
    jobs[i] = (Job){p->fam, w, i, N, n, obj, 0, 0, cap};
    long words = cp.fam == F_CASLOOP ? 3 * cap : 2 * n + 8;
    jobs[i].log = malloc(sizeof(ul) * words);
  }
  pthread_barrier_init(&bar, 0, N);
  for (int i = 0; i < N; i++) pthread_create(&th[i], 0, thread_main, &jobs[i]);
  for (int i = 0; i < N; i++) pthread_join(th[i], 0);
  pthread_barrier_destroy(&bar);
  ul final = load_obj(obj, w) & M;
  long total = (long)N * n;
  total_ops += total;
  phases++;
  long handoffs = 0, casfail = 0;
  char det[200];

  if (cp.fam <= F_MULODD) {
    // expected multiset of returned values
    ul *exp = malloc(sizeof(ul) * total), *got = malloc(sizeof(ul) * total);
    int *owner = malloc(sizeof(int) * total);
    long k = 0;
    ul v = init;
    for (long i = 0; i < total; i++) {
      ul before = v;
      switch (cp.fam) {
      case F_ADDASSIGN: case F_PREINC: v = (v + 1) & M; exp[i] = v; break;
      case F_POSTINC: case F_FETCHADD: v = (v + 1) & M; exp[i] = before; break;
      case F_SUBASSIGN: v = (v - 1) & M; exp[i] = v; break;
      case F_FETCHSUB: v = (v - 1) & M; exp[i] = before; break;
      case F_MULODD: v = (v * 3) & M; exp[i] = v; break;
      }
    }
    ul expfinal = v;
    for (int t = 0; t < N; t++)
      for (long i = 0; i < jobs[t].loglen; i++) got[k++] = jobs[t].log[i] & M;
    if (k != total) { violation(p, "log-length", 0); }
    if (final != expfinal) { snprintf(det, sizeof det, "final value %lu, expected %lu: %ld updates lost", final, expfinal, (long)((expfinal - final) & M)); violation(p, "lost-update", det); }
    // hand-offs (only meaningful when the expected values are all distinct)
    if (wbits[w] >= 32 && cp.fam != F_MULODD) {
      ul base = exp[0];
      int dir = (cp.fam == F_SUBASSIGN || cp.fam == F_FETCHSUB) ? -1 : 1;
      memset(owner, -1, sizeof(int) * total);
      for (int t = 0; t < N; t++)
        for (long i = 0; i < jobs[t].loglen; i++) {
          ul idx = dir > 0 ? ((jobs[t].log[i] & M) - base) & M : (base - (jobs[t].log[i] & M)) & M;
          if (idx < (ul)total) { if (owner[idx] != -1 && final == expfinal) { violation(p, "duplicate-value", "one value returned to two operations"); break; } owner[idx] = t; }
        }
      for (long i = 1; i < total; i++) if (owner[i] != owner[i - 1]) handoffs++;
      // per-thread order: a thread must see its own results in program order
      for (int t = 0; t < N; t++)
        for (long i = 1; i < jobs[t].loglen; i++) {
          ul a = jobs[t].log[i - 1] & M, b = jobs[t].log[i] & M;
          if (dir > 0 ? !(((b - a) & M) < (ul)total && b != a) : !(((a - b) & M) < (ul)total && b != a)) { violation(p, "per-thread-order", 0); t = N; break; }
        }
    }
    qsort(exp, total, sizeof(ul), cmp_ul);
    qsort(got, total, sizeof(ul), cmp_ul);
    if (k == total && memcmp(exp, got, sizeof(ul) * total)) {
      long i = 0;
      while (i < total && exp[i] == got[i]) i++;
      snprintf(det, sizeof det, "multiset of returned values differs at sorted position %ld: got %lu expected %lu", i, got[i], exp[i]);
      violation(p, final == expfinal ? "result-values" : "lost-update-values", det);
    }
    free(exp); free(got); free(owner);
  } else if (cp.fam == F_XOR) {
    ul expfinal = 0;
    for (int t = 0; t < N; t++) if (n & 1) expfinal ^= 1ul << (t % wbits[w]);
    int distinct = N <= wbits[w];
    if (distinct && final != (expfinal & M)) { snprintf(det, sizeof det, "final %lx expected %lx", final, expfinal & M); violation(p, "lost-update", det); }
    if (distinct)
      for (int t = 0; t < N; t++) {
        ul bit = 1ul << (t % wbits[w]);
        for (long i = 0; i < jobs[t].loglen; i++)
          if (!!(jobs[t].log[i] & bit) != ((i + 1) & 1)) { snprintf(det, sizeof det, "thread %d op %ld: own bit not toggled", t, i); violation(p, "lost-update", det); t = N; break; }
      }
  } else if (cp.fam == F_ORAND) {
    int distinct = N <= wbits[w];
    if (distinct && final != 0) { snprintf(det, sizeof det, "final %lx expected 0", final); violation(p, "lost-update", det); }
    if (distinct)
      for (int t = 0; t < N; t++) {
        ul bit = 1ul << (t % wbits[w]);
        for (long i = 0; i < jobs[t].loglen; i++)
          if (!!(jobs[t].log[i] & bit) != (i & 1)) { snprintf(det, sizeof det, "thread %d op %ld: fetch_%s saw own bit %s", t, i, (i & 1) ? "and" : "or", (i & 1) ? "clear" : "set"); violation(p, "lost-update", det); t = N; break; }
      }
  } else if (cp.fam == F_EXCHANGE) {
    // exactly-once: {received} + {final} == {0} + {all tokens}
    ul *got = malloc(sizeof(ul) * (total + 1)), *exp = malloc(sizeof(ul) * (total + 1));
    long k = 0;
    for (int t = 0; t < N; t++) for (long i = 0; i < jobs[t].loglen; i++) got[k++] = (w >= 4) ? (jobs[t].log[i] & M) : jobs[t].log[i];   /* signed results are sign-extended: compare modulo the width */
    got[k++] = final;
    exp[0] = 0;
    for (long i = 0; i < total; i++) exp[i + 1] = (1 + (ul)i) & M;
    qsort(got, k, sizeof(ul), cmp_ul);
    qsort(exp, total + 1, sizeof(ul), cmp_ul);
    for (long i = 0; i <= total; i++)
      if (got[i] != exp[i]) {
        int upper = (got[i] & ~M) != 0;
        snprintf(det, sizeof det, "sorted position %ld: got %lu expected %lu", i, got[i], exp[i]);
        violation(p, upper ? "result-garbage-upper-bits" : (i > 0 && got[i] == got[i - 1]) ? "duplicate-token" : "lost-token", det);
        break;
      }
    // hand-offs: a token received by a thread other than the one that stored it
    for (int t = 0; t < N; t++) for (long i = 0; i < jobs[t].loglen; i++) { ul tok = jobs[t].log[i] & M; if (tok && (long)((tok - 1) / p->n) != t) handoffs++; }
    free(got); free(exp);
  } else if (cp.fam == F_CASLOOP) {
    ul *succ = malloc(sizeof(ul) * total);
    long k = 0;
    int overflow = 0;
    for (int t = 0; t < N; t++) {
      long m = jobs[t].loglen / 3;
      if (m >= cap) overflow = 1;
      if (p->fam == F_CASCALL && m == 1 && jobs[t].log[0] == ~0ul && jobs[t].log[2] == 0) {
        snprintf(det, sizeof det, "thread %d: a failed compare-exchange changed an unrelated object (now %ld)", t, (long)jobs[t].log[1]);
        violation(p, "cas-writeback-to-wrong-address", det); overflow = 1; break;
      }
      for (long i = 0; i < m; i++) {
        ul expected = jobs[t].log[3 * i] & M, res = jobs[t].log[3 * i + 1] & M, ok = jobs[t].log[3 * i + 2];
        if (ok) { if (k < total) succ[k] = expected; k++; if (res != ((expected + 1) & M)) violation(p, "cas-result", 0); }
        else {
          casfail++;
          if (res == expected) { snprintf(det, sizeof det, "thread %d attempt %ld: compare-exchange failed although the object held the expected value %lu (or did not write back)", t, i, expected); violation(p, "cas-spurious-fail-or-no-writeback", det); t = N; break; }
        }
      }
    }
    if (!overflow) {
      if (k != total) { snprintf(det, sizeof det, "%ld successes for %ld operations", k, total); violation(p, "cas-success-count", det); }
      else {
        qsort(succ, total, sizeof(ul), cmp_ul);
        if (wbits[w] >= 32 || total < (long)M)
          for (long i = 0; i < total; i++) if (succ[i] != ((ul)i & M)) { snprintf(det, sizeof det, "successful CAS chain broken at %ld: expected-value %lu", i, succ[i]); violation(p, "lost-update", det); break; }
      }
      if (final != ((ul)total & M)) { snprintf(det, sizeof det, "final %lu expected %lu", final, (ul)total & M); violation(p, "lost-update", det); }
    }
    free(succ);
  } else if (cp.fam == F_TREIBER) {
    // every node 1..total was pushed once: it is either still on the stack or was popped exactly once
    ul *got = malloc(sizeof(ul) * (2 * total + 2));
    long k = 0, empty = 0;
    for (int t = 0; t < N; t++) for (long i = 0; i < jobs[t].loglen; i++) { if (jobs[t].log[i]) { got[k++] = jobs[t].log[i]; if ((long)((jobs[t].log[i] - 1) / n) != t) handoffs++; } else empty++; }
    extern long *treiber_next_array;
    for (long v = (long)final, steps = 0; v && steps <= total; v = treiber_next_array[v], steps++) got[k++] = (ul)v;
    qsort(got, k, sizeof(ul), cmp_ul);
    if (k != total) { snprintf(det, sizeof det, "%ld nodes accounted for (popped + still stacked), %ld pushed", k, total); violation(p, k < total ? "lost-node" : "duplicate-node", det); }
    else for (long i = 0; i < total; i++) if (got[i] != (ul)i + 1) { snprintf(det, sizeof det, "sorted position %ld: node %lu, expected %ld", i, got[i], i + 1); violation(p, (i && got[i] == got[i - 1]) ? "duplicate-node" : "lost-node", det); break; }
    free(got);
  } else if (cp.fam == F_SIGNMOD) {
    ul minus2 = (ul)-2 & M;
    long flippers = N / 2;
    ul expfinal = ((flippers * n) & 1) ? minus2 : 2;
    for (int t = 0; t < N; t++)
      for (long i = 0; i < jobs[t].loglen; i++) {
        ul v = jobs[t].log[i] & M;
        if (v != 2 && v != minus2) { snprintf(det, sizeof det, "thread %d (%s) op %ld produced %ld: neither 2 nor -2", t, (t & 1) ? "x *= -1" : "x %= 16", i, (long)jobs[t].log[i]); violation(p, "result-from-value-never-held", det); t = N; break; }
        if (i && v != (jobs[t].log[i - 1] & M)) handoffs += !(t & 1);
      }
    if (final != expfinal) { snprintf(det, sizeof det, "final %lu expected %lu", final, expfinal); violation(p, "lost-update", det); }
  } else if (cp.fam == F_CLAIM) {
    ul won = 0, lost = 0, imp = 0, wrong = 0;
    for (int t = 0; t < N; t++) { won += jobs[t].log[0]; lost += jobs[t].log[1]; imp += jobs[t].log[2]; wrong += jobs[t].log[3]; }
    casfail = lost;
    handoffs = lost;          // every failed claim met another owner: evidence of real interleaving
    if (won + lost != (ul)total) violation(p, "log-length", 0);
    if (imp) { snprintf(det, sizeof det, "%lu strong compare-exchanges failed and reported the expected value 0 as the value found", imp); violation(p, "cas-fail-without-difference", det); }
    if (wrong) { snprintf(det, sizeof det, "%lu owners found somebody else's mark in the cell they had claimed", wrong); violation(p, "cas-double-success", det); }
    if (final != 0) { snprintf(det, sizeof det, "final %lu expected 0", final); violation(p, "lost-update", det); }
  }
  total_handoffs += handoffs;
  total_casfail += casfail;
  printf("PHASE %s %s %s threads=%d n=%ld handoffs=%ld cas_failures=%ld\n", famname[p->fam], wname[p->w], stname[p->st], N, n, handoffs, casfail);
  for (int i = 0; i < N; i++) free(jobs[i].log);
  free(jobs); free(th);
}

int main(int argc, char **argv) {
  int N = argc > 1 ? atoi(argv[1]) : 4;
  long n = argc > 2 ? atol(argv[2]) : 100000;
  unsigned seed = argc > 3 ? atoi(argv[3]) : 1;
  int small = argc > 4;
  cpu_set_t set;
  sched_getaffinity(0, sizeof set, &set);
  for (int i = 0; i < CPU_SETSIZE && ncpu_avail < 256; i++) if (CPU_ISSET(i, &set)) cpus[ncpu_avail++] = i;
  if (N > ncpu_avail) N = ncpu_avail;
  setvbuf(stdout, 0, _IOLBF, 0);
  fill_float_variants();
  int idx = 0;
  for (int fam = 0; fam < NFAM; fam++)
    for (int w = 0; w < NVAR; w++) {
      if (!table[fam][w]) continue;
      // the race detector knows pthread synchronisation only: plain data protected by a lock built from atomics would be reported as racing
      if (small && (fam == F_FLAGLOCK || fam == F_TICKETLOCK || fam == F_TREIBER)) continue;
      int st = (idx++ + seed) % 3;
      int nst = small ? 1 : 3;
      for (int s = 0; s < nst; s++) {
        Phase p = {fam, w, (st + s) % 3, N, n};
        if (small && s > 0) break;
        // narrow objects: keep token/chain spaces unambiguous
        int cf = canon(fam);
        if ((cf == F_EXCHANGE || cf == F_CASLOOP) && wbits[w] == 8) p.n = 250 / N;
        if ((cf == F_EXCHANGE || cf == F_CASLOOP) && wbits[w] == 16 && (long)N * n > 65000) p.n = 65000 / N;
        if (cf == F_CASLOOP && p.n > 200000) p.n = 200000;
        if (fam == F_FLAGLOCK) p.n = n / 10 + 1;
        if (fam == F_TICKETLOCK) p.n = n / 100 + 1;
        if (fam == F_TREIBER) { p.n = n / 4 + 1; free(treiber_next_array); treiber_next_array = calloc((long)N * p.n + 2, sizeof(long)); set_treiber_next(treiber_next_array); }
        if (wfloat[w] && wbits[w] == 32 && (long)N * p.n >= (1 << 24)) p.n = ((1 << 24) - 1) / N;
        if (p.st == 0) run_phase_on(static_object(w), &p);
        else if (p.st == 1) with_automatic(w, run_phase_on, &p);
        else {
          // heap object with guard bytes on both sides: an access wider than the object shows up in them
          unsigned char *h = aligned_alloc(64, 128); memset(h, 0xA5, 128); memset(h + 64, 0, 8); run_phase_on(h + 64, &p);
          int nb = wbits[w] / 8; for (int g = 0; g < 128; g++) if ((g < 64 || g >= 64 + nb) && h[g] != (g >= 64 && g < 72 ? 0 : 0xA5)) { violation(&p, "neighbour-clobbered", "a byte next to the atomic object changed"); break; }
          free(h);
        }
        if (small) break;
      }
    }
  printf("STATS phases=%ld ops=%ld handoffs=%ld cas_failures=%ld threads=%d cpus=%d violations=%ld\n", phases, total_ops, total_handoffs, total_casfail, N, ncpu_avail, total_violations);
  return total_violations ? 1 : 0;
}
