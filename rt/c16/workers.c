// C16 workload: compiled by the compiler under test (chibicc); gcc/clang build the same file as a reference.
// Every function hammers one shared _Atomic object and appends what it observed to a per-thread log.
#include <stdatomic.h>

// OBJ is the lvalue that is operated on: the pointed-to object itself, or (member variant) a member of its enclosing struct
#define OBJ (*p)
#define DEFINE(T, S, AT)                                                                       \
  void w_addassign_##S(AT *p, long n, unsigned long *log) {                          \
    for (long i = 0; i < n; i++) log[i] = (OBJ += 1);                                        \
  }                                                                                         \
  void w_preinc_##S(AT *p, long n, unsigned long *log) {                             \
    for (long i = 0; i < n; i++) log[i] = ++OBJ;                                             \
  }                                                                                         \
  void w_postinc_##S(AT *p, long n, unsigned long *log) {                            \
    for (long i = 0; i < n; i++) log[i] = OBJ++;                                           \
  }                                                                                         \
  void w_subassign_##S(AT *p, long n, unsigned long *log) {                          \
    for (long i = 0; i < n; i++) log[i] = (OBJ -= 1);                                        \
  }                                                                                         \
  void w_fetchadd_##S(AT *p, long n, unsigned long *log) {                           \
    for (long i = 0; i < n; i++) log[i] = atomic_fetch_add(&OBJ, 1);                           \
  }                                                                                         \
  void w_fetchsub_##S(AT *p, long n, unsigned long *log) {                           \
    for (long i = 0; i < n; i++) log[i] = atomic_fetch_sub(&OBJ, 1);                           \
  }                                                                                         \
  void w_mulodd_##S(AT *p, long n, unsigned long *log) {                             \
    for (long i = 0; i < n; i++) log[i] = (OBJ *= 3);                                        \
  }                                                                                         \
  void w_xor_##S(AT *p, long n, unsigned long *log, unsigned long mask) {            \
    for (long i = 0; i < n; i++) log[i] = (OBJ ^= (T)mask);                                  \
  }                                                                                         \
  void w_orand_##S(AT *p, long n, unsigned long *log, unsigned long bit) {           \
    for (long i = 0; i < n; i++) {                                                          \
      log[2 * i] = atomic_fetch_or(&OBJ, (T)bit);                                              \
      log[2 * i + 1] = atomic_fetch_and(&OBJ, (T)~bit);                                        \
    }                                                                                       \
  }                                                                                         \
  void w_exchange_##S(AT *p, long n, unsigned long *log, unsigned long first) {      \
    for (long i = 0; i < n; i++) log[i] = atomic_exchange(&OBJ, (T)(first + i));               \
  }                                                                                         \
  /* explicit compare-exchange loop: log[3k] = expected passed, log[3k+1] = value found on failure / new on success, log[3k+2] = success */ \
  long w_casloop_##S(AT *p, long n, unsigned long *log, long cap) {                  \
    long k = 0;                                                                             \
    T old = atomic_load(&OBJ);                                                                 \
    for (long i = 0; i < n; i++) {                                                          \
      for (;;) {                                                                            \
        T expected = old;                                                                   \
        T desired = expected + 1;                                                           \
        /* the desired value is given as an int expression: it is converted to the object's type, whatever its own width */ \
        _Bool ok = atomic_compare_exchange_strong(&OBJ, &old, (int)desired);                \
        if (k < cap) { log[3 * k] = expected; log[3 * k + 1] = ok ? desired : old; log[3 * k + 2] = ok; k++; } \
        if (ok) { old = desired; break; }                                                   \
      }                                                                                     \
    }                                                                                       \
    return k;                                                                               \
  }                                                                                         \
  /* ownership cell: 0 = free, k = owned by thread k. A failed strong compare-exchange must report the value that made it fail (never 0). */ \
  void w_claim_##S(AT *p, long n, unsigned long *log, unsigned long me) {              \
    unsigned long won = 0, lost = 0, impossible = 0, wrong_owner = 0;                       \
    for (long i = 0; i < n; i++) {                                                          \
      T seen = 0;                                                                           \
      if (atomic_compare_exchange_strong(&OBJ, &seen, (T)me)) {                             \
        won++;                                                                              \
        if (atomic_exchange(&OBJ, 0) != (T)me) wrong_owner++;                               \
      } else {                                                                              \
        lost++;                                                                             \
        if (seen == 0) impossible++;                                                        \
      }                                                                                     \
    }                                                                                       \
    log[0] = won; log[1] = lost; log[2] = impossible; log[3] = wrong_owner;                 \
  }                                                                                         \
  /* compare-exchange loop whose desired value comes from a call with many arguments (every caller-saved register is dead across it), weak and strong alternating */ \
  long w_cascall_##S(AT *p, long n, unsigned long *log, long cap) {                         \
    long k = 0;                                                                             \
    long scratch = 1;                                                                       \
    T old = atomic_load(&OBJ);                                                              \
    for (long i = 0; i < n; i++) {                                                          \
      for (;;) {                                                                            \
        T expected = old;                                                                   \
        T desired = expected + 1;                                                           \
        _Bool ok = (k & 1) ? atomic_compare_exchange_weak(&OBJ, &old, (T)mix6(expected, 0, 0, 0, &scratch, i))   \
                           : atomic_compare_exchange_strong(&OBJ, &old, (T)mix6(0, expected, 0, 0, &scratch, i)); \
        if (scratch != 1) { log[0] = ~0ul; log[1] = scratch; log[2] = 0; return 1; }          \
        if (k < cap) { log[3 * k] = expected; log[3 * k + 1] = ok ? desired : old; log[3 * k + 2] = ok; k++; } \
        if (ok) { old = desired; break; }                                                   \
      }                                                                                     \
    }                                                                                       \
    return k;                                                                               \
  }                                                                                         \
  /* the _explicit spellings with every memory order: the order may weaken ordering, never indivisibility */ \
  void w_exchx_##S(AT *p, long n, unsigned long *log, unsigned long first) {                \
    for (long i = 0; i < n; i++) {                                                          \
      T v = (T)(first + i);                                                                 \
      switch (i % 6) {                                                                      \
      case 0: log[i] = atomic_exchange_explicit(&OBJ, v, memory_order_relaxed); break;      \
      case 1: log[i] = atomic_exchange_explicit(&OBJ, v, memory_order_consume); break;      \
      case 2: log[i] = atomic_exchange_explicit(&OBJ, v, memory_order_acquire); break;      \
      case 3: log[i] = atomic_exchange_explicit(&OBJ, v, memory_order_release); break;      \
      case 4: log[i] = atomic_exchange_explicit(&OBJ, v, memory_order_acq_rel); break;      \
      default: log[i] = atomic_exchange_explicit(&OBJ, v, memory_order_seq_cst); break;     \
      }                                                                                     \
    }                                                                                       \
  }                                                                                         \
  void w_fetchx_##S(AT *p, long n, unsigned long *log) {                                    \
    for (long i = 0; i < n; i++) {                                                          \
      switch (i % 4) {                                                                      \
      case 0: log[i] = atomic_fetch_add_explicit(&OBJ, 1, memory_order_relaxed); break;     \
      case 1: log[i] = atomic_fetch_add_explicit(&OBJ, 1, memory_order_acquire); break;     \
      case 2: log[i] = atomic_fetch_sub_explicit(&OBJ, -1, memory_order_release); break;    \
      default: log[i] = atomic_fetch_add_explicit(&OBJ, 1, memory_order_seq_cst); break;    \
      }                                                                                     \
    }                                                                                       \
  }                                                                                         \
  void w_shift_##S(AT *p, long n, unsigned long *log) {                              \
    for (long i = 0; i < n; i++) { log[2 * i] = (OBJ <<= 1); log[2 * i + 1] = (OBJ |= 1); }   \
  }

static long mix6(long a, long b, long c, long d, long *e, long f) { return a + b + c + d + *e + (f & 0); }

// signed narrow objects whose sign other threads keep flipping: x %= 16 keeps 2 and -2 as they are, x *= -1 swaps them; any other value means an
// update was computed from a value the object never held
#define DEFINE_SIGNMOD(T, S, AT)                                                             \
  void w_signmod_##S(AT *p, long n, unsigned long *log, unsigned long role) {                \
    if (role & 1) for (long i = 0; i < n; i++) log[i] = (unsigned long)(long)(OBJ *= -1);    \
    else for (long i = 0; i < n; i++) log[i] = (unsigned long)(long)(OBJ %= 16);             \
  }

// every spelling of an atomic type is used for one width variant
typedef _Atomic(long) td_atomic_long;
DEFINE(unsigned char, u8, _Atomic unsigned char)
DEFINE(unsigned short, u16, _Atomic(unsigned short))
DEFINE(unsigned int, u32, unsigned int _Atomic)
DEFINE(unsigned long, u64, atomic_ulong)
DEFINE(signed char, i8, _Atomic(signed char))
DEFINE(long, i64, td_atomic_long)
DEFINE(short, i16, _Atomic short)
DEFINE_SIGNMOD(signed char, i8, _Atomic(signed char))
DEFINE_SIGNMOD(short, i16, _Atomic short)
DEFINE_SIGNMOD(int, i32, _Atomic int)

// member variant: the atomic object is reached as a struct member (s.m op= v, q->m++)
struct BoxM { char pad[3]; _Atomic unsigned m; long tail; };
#undef OBJ
#define OBJ (((struct BoxM *)((char *)p - (unsigned long)&((struct BoxM *)0)->m))->m)
DEFINE(unsigned, m32, _Atomic unsigned)
#undef OBJ
#define OBJ (*p)

// floating variant: compound assignment and ++ on _Atomic double (the values stay exactly representable integers)
void w_addassign_d64(_Atomic double *p, long n, unsigned long *log) { for (long i = 0; i < n; i++) log[i] = (unsigned long)(*p += 1.0); }
void w_preinc_d64(_Atomic double *p, long n, unsigned long *log) { for (long i = 0; i < n; i++) log[i] = (unsigned long)++*p; }
void w_postinc_d64(_Atomic double *p, long n, unsigned long *log) { for (long i = 0; i < n; i++) log[i] = (unsigned long)(*p)++; }
void w_addassign_f32(_Atomic float *p, long n, unsigned long *log) { for (long i = 0; i < n; i++) log[i] = (unsigned long)(*p += 1); }
void w_preinc_f32(_Atomic float *p, long n, unsigned long *log) { for (long i = 0; i < n; i++) log[i] = (unsigned long)++*p; }
void w_postinc_f32(_Atomic float *p, long n, unsigned long *log) { for (long i = 0; i < n; i++) log[i] = (unsigned long)(*p)++; }

// pointer variant: an atomic pointer object (pointer += n, pointer++); the families that are not defined for pointers reuse the 64-bit integer workers
typedef unsigned char *bytep;
void w_addassign_p64(_Atomic(bytep) *p, long n, unsigned long *log) { for (long i = 0; i < n; i++) log[i] = (unsigned long)(*p += 1); }
void w_preinc_p64(_Atomic(bytep) *p, long n, unsigned long *log) { for (long i = 0; i < n; i++) log[i] = (unsigned long)++*p; }
void w_postinc_p64(_Atomic(bytep) *p, long n, unsigned long *log) { for (long i = 0; i < n; i++) log[i] = (unsigned long)(*p)++; }
void w_subassign_p64(_Atomic(bytep) *p, long n, unsigned long *log) { for (long i = 0; i < n; i++) log[i] = (unsigned long)(*p -= 1); }
void w_fetchadd_p64(void *p, long n, unsigned long *log) { w_fetchadd_u64(p, n, log); }
void w_fetchsub_p64(void *p, long n, unsigned long *log) { w_fetchsub_u64(p, n, log); }
void w_mulodd_p64(void *p, long n, unsigned long *log) { w_mulodd_u64(p, n, log); }
void w_xor_p64(void *p, long n, unsigned long *log, unsigned long mask) { w_xor_u64(p, n, log, mask); }
void w_orand_p64(void *p, long n, unsigned long *log, unsigned long bit) { w_orand_u64(p, n, log, bit); }
void w_exchange_p64(_Atomic(bytep) *p, long n, unsigned long *log, unsigned long first) { for (long i = 0; i < n; i++) log[i] = (unsigned long)atomic_exchange(p, (bytep)(first + i)); }
void w_fetchx_p64(void *p, long n, unsigned long *log) { w_fetchx_u64(p, n, log); }
void w_exchx_p64(void *p, long n, unsigned long *log, unsigned long first) { w_exchx_u64(p, n, log, first); }
long w_cascall_p64(void *p, long n, unsigned long *log, long cap) { return w_cascall_u64(p, n, log, cap); }
void w_claim_p64(_Atomic(bytep) *p, long n, unsigned long *log, unsigned long me) {
  unsigned long won = 0, lost = 0, impossible = 0, wrong_owner = 0;
  for (long i = 0; i < n; i++) {
    bytep seen = 0;
    if (atomic_compare_exchange_strong(p, &seen, (bytep)me)) { won++; if (atomic_exchange(p, (bytep)0) != (bytep)me) wrong_owner++; }
    else { lost++; if (seen == 0) impossible++; }
  }
  log[0] = won; log[1] = lost; log[2] = impossible; log[3] = wrong_owner;
}
long w_casloop_p64(_Atomic(bytep) *p, long n, unsigned long *log, long cap) {
  long k = 0;
  bytep old = atomic_load(p);
  for (long i = 0; i < n; i++) {
    for (;;) {
      bytep expected = old;
      bytep desired = expected + 1;
      _Bool ok = atomic_compare_exchange_strong(p, &old, desired);
      if (k < cap) { log[3 * k] = (unsigned long)expected; log[3 * k + 1] = (unsigned long)(ok ? desired : old); log[3 * k + 2] = ok; k++; }
      if (ok) { old = desired; break; }
    }
  }
  return k;
}

// lock-free algorithms built from the primitives; the protected data is plain (non-atomic) memory, so a broken primitive shows as a lost or duplicated item
static atomic_flag spin = ATOMIC_FLAG_INIT;
void w_flaglock_u64(long *counter, long n, unsigned long *log) {
  for (long i = 0; i < n; i++) {
    while (atomic_flag_test_and_set(&spin)) ;
    long v = *counter; log[i] = v; *counter = v + 1;
    atomic_flag_clear(&spin);
  }
}
static _Atomic unsigned next_ticket, now_serving;
void w_ticketlock_u64(long *counter, long n, unsigned long *log) {
  for (long i = 0; i < n; i++) {
    unsigned my = atomic_fetch_add(&next_ticket, 1);
    while (atomic_load(&now_serving) != my) ;
    long v = *counter; log[i] = v; *counter = v + 1;
    now_serving++;
  }
}
// Treiber stack over node numbers 1..; a node is pushed once and never reused, so there is no ABA case: every pushed node must come out exactly once
static long *treiber_next;
void set_treiber_next(long *a) { treiber_next = a; }
void w_treiber_u64(_Atomic long *head, long n, unsigned long *log, unsigned long tid) {
  for (long i = 0; i < n; i++) {
    long k = 1 + tid * n + i;
    long old = atomic_load(head);
    do { treiber_next[k] = old; } while (!atomic_compare_exchange_weak(head, &old, k));
    long top = atomic_load(head), nx;
    do { if (top == 0) break; nx = treiber_next[top]; } while (!atomic_compare_exchange_strong(head, &top, nx));
    log[i] = top;
  }
}

// the object itself in static storage, defined by the compiler under test
_Atomic unsigned char s_u8;
_Atomic unsigned short s_u16;
_Atomic unsigned int s_u32;
_Atomic unsigned long s_u64;
_Atomic signed char s_i8;
_Atomic long s_i64;
static _Atomic short s_i16;
static struct BoxM s_box;
static _Atomic(bytep) s_p64;
static _Atomic double s_d64;
static _Atomic float s_f32;
void *static_object(int which) {
  switch (which) {
  case 0: return &s_u8;
  case 1: return &s_u16;
  case 2: return &s_u32;
  case 3: return &s_u64;
  case 4: return &s_i8;
  case 6: return &s_box.m;
  case 7: return &s_p64;
  case 8: return &s_d64;
  case 9: return &s_f32;
  case 10: return &s_i16;
  default: return &s_i64;
  }
}

// automatic storage: the object lives in this frame while the harness callback runs the phase
void with_automatic(int which, void (*run)(void *obj, void *ctx), void *ctx) {
  _Atomic unsigned char a8 = 0; _Atomic unsigned short a16 = 0; _Atomic unsigned int a32 = 0; _Atomic unsigned long a64 = 0;
  _Atomic signed char b8 = 0; _Atomic long b64 = 0; _Atomic short b16 = 0;
  struct BoxM abox = {}; _Atomic(bytep) ap64 = 0;
  switch (which) {
  case 6: run(&abox.m, ctx); break;
  case 7: run(&ap64, ctx); break;
  case 8: { _Atomic double ad64 = 0; run(&ad64, ctx); break; }
  case 9: { _Atomic float af32 = 0; run(&af32, ctx); break; }
  case 10: run(&b16, ctx); break;
  case 0: run(&a8, ctx); break;
  case 1: run(&a16, ctx); break;
  case 2: run(&a32, ctx); break;
  case 3: run(&a64, ctx); break;
  case 4: run(&b8, ctx); break;
  default: run(&b64, ctx); break;
  }
}
