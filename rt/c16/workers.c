// C16 workload: compiled by the compiler under test (chibicc); gcc/clang build the same file as a reference.
// Every function hammers one shared _Atomic object and appends what it observed to a per-thread log.
#include <stdatomic.h>

#define DEFINE(T, S, AT)                                                                       \
  void w_addassign_##S(AT *p, long n, unsigned long *log) {                          \
    for (long i = 0; i < n; i++) log[i] = (*p += 1);                                        \
  }                                                                                         \
  void w_preinc_##S(AT *p, long n, unsigned long *log) {                             \
    for (long i = 0; i < n; i++) log[i] = ++*p;                                             \
  }                                                                                         \
  void w_postinc_##S(AT *p, long n, unsigned long *log) {                            \
    for (long i = 0; i < n; i++) log[i] = (*p)++;                                           \
  }                                                                                         \
  void w_subassign_##S(AT *p, long n, unsigned long *log) {                          \
    for (long i = 0; i < n; i++) log[i] = (*p -= 1);                                        \
  }                                                                                         \
  void w_fetchadd_##S(AT *p, long n, unsigned long *log) {                           \
    for (long i = 0; i < n; i++) log[i] = atomic_fetch_add(p, 1);                           \
  }                                                                                         \
  void w_fetchsub_##S(AT *p, long n, unsigned long *log) {                           \
    for (long i = 0; i < n; i++) log[i] = atomic_fetch_sub(p, 1);                           \
  }                                                                                         \
  void w_mulodd_##S(AT *p, long n, unsigned long *log) {                             \
    for (long i = 0; i < n; i++) log[i] = (*p *= 3);                                        \
  }                                                                                         \
  void w_xor_##S(AT *p, long n, unsigned long *log, unsigned long mask) {            \
    for (long i = 0; i < n; i++) log[i] = (*p ^= (T)mask);                                  \
  }                                                                                         \
  void w_orand_##S(AT *p, long n, unsigned long *log, unsigned long bit) {           \
    for (long i = 0; i < n; i++) {                                                          \
      log[2 * i] = atomic_fetch_or(p, (T)bit);                                              \
      log[2 * i + 1] = atomic_fetch_and(p, (T)~bit);                                        \
    }                                                                                       \
  }                                                                                         \
  void w_exchange_##S(AT *p, long n, unsigned long *log, unsigned long first) {      \
    for (long i = 0; i < n; i++) log[i] = atomic_exchange(p, (T)(first + i));               \
  }                                                                                         \
  /* explicit compare-exchange loop: log[3k] = expected passed, log[3k+1] = value found on failure / new on success, log[3k+2] = success */ \
  long w_casloop_##S(AT *p, long n, unsigned long *log, long cap) {                  \
    long k = 0;                                                                             \
    T old = atomic_load(p);                                                                 \
    for (long i = 0; i < n; i++) {                                                          \
      for (;;) {                                                                            \
        T expected = old;                                                                   \
        T desired = expected + 1;                                                           \
        _Bool ok = atomic_compare_exchange_strong(p, &old, desired);                        \
        if (k < cap) { log[3 * k] = expected; log[3 * k + 1] = ok ? desired : old; log[3 * k + 2] = ok; k++; } \
        if (ok) { old = desired; break; }                                                   \
      }                                                                                     \
    }                                                                                       \
    return k;                                                                               \
  }                                                                                         \
  void w_shift_##S(AT *p, long n, unsigned long *log) {                              \
    for (long i = 0; i < n; i++) { log[2 * i] = (*p <<= 1); log[2 * i + 1] = (*p |= 1); }   \
  }

// every spelling of an atomic type is used for one width variant
typedef _Atomic(long) td_atomic_long;
DEFINE(unsigned char, u8, _Atomic unsigned char)
DEFINE(unsigned short, u16, _Atomic(unsigned short))
DEFINE(unsigned int, u32, unsigned int _Atomic)
DEFINE(unsigned long, u64, atomic_ulong)
DEFINE(signed char, i8, _Atomic(signed char))
DEFINE(long, i64, td_atomic_long)

// the object itself in static storage, defined by the compiler under test
_Atomic unsigned char s_u8;
_Atomic unsigned short s_u16;
_Atomic unsigned int s_u32;
_Atomic unsigned long s_u64;
_Atomic signed char s_i8;
_Atomic long s_i64;
void *static_object(int which) {
  switch (which) {
  case 0: return &s_u8;
  case 1: return &s_u16;
  case 2: return &s_u32;
  case 3: return &s_u64;
  case 4: return &s_i8;
  default: return &s_i64;
  }
}

// automatic storage: the object lives in this frame while the harness callback runs the phase
void with_automatic(int which, void (*run)(void *obj, void *ctx), void *ctx) {
  _Atomic unsigned char a8 = 0; _Atomic unsigned short a16 = 0; _Atomic unsigned int a32 = 0; _Atomic unsigned long a64 = 0;
  _Atomic signed char b8 = 0; _Atomic long b64 = 0;
  switch (which) {
  case 0: run(&a8, ctx); break;
  case 1: run(&a16, ctx); break;
  case 2: run(&a32, ctx); break;
  case 3: run(&a64, ctx); break;
  case 4: run(&b8, ctx); break;
  default: run(&b64, ctx); break;
  }
}
