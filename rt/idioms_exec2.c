#include <stdio.h>
#include <stdlib.h>
#include <string.h>
#include <stddef.h>
#include <setjmp.h>
#include <stdarg.h>
#include <limits.h>
#include <stdint.h>
static long results[800]; static int nr;
#define R(e) (results[nr++] = (long)(e))
#define SWAP(T, a, b) do { T t_ = (a); (a) = (b); (b) = t_; } while (0)
#define XLIST X(alpha, 1) X(beta, 20) X(gamma, 300)
#define X(n, v) n = v,
enum xe { XLIST };
#undef X
#define X(n, v) #n,
static const char *xnames[] = { XLIST };
#undef X
#define CAT(a, b) a##b
#define MK(n) static int CAT(fn_, n)(void) { return n; }
MK(1) MK(22) MK(333)
#define COUNT(...) (sizeof((int[]){__VA_ARGS__}) / sizeof(int))
#define MAX(a, b) ((a) > (b) ? (a) : (b))
struct Node { int v; struct Node *next; };
struct Flex { int n; short d[]; };
struct Pad { char a; long b; char c; int d; short e; };
struct In { struct { int x, y; } p; int a[3]; union { int i; float f; } u; };
typedef int (*cmpfn)(const void *, const void *);
static int cmp_int(const void *a, const void *b) { int x = *(const int *)a, y = *(const int *)b; return (x > y) - (x < y); }
static int cmp_rev(const void *a, const void *b) { return -cmp_int(a, b); }
static int cmp_str(const void *a, const void *b) { return strcmp(*(char *const *)a, *(char *const *)b); }
static jmp_buf jb;
static int depth(int n) { if (n == 0) longjmp(jb, 42); return depth(n - 1) + 1; }
static int duff(char *to, const char *from, int count) { int n = (count + 7) / 8, w = 0; switch (count % 8) { case 0: do { *to++ = *from++; w++; case 7: *to++ = *from++; w++; case 6: *to++ = *from++; w++; case 5: *to++ = *from++; w++; case 4: *to++ = *from++; w++; case 3: *to++ = *from++; w++; case 2: *to++ = *from++; w++; case 1: *to++ = *from++; w++; } while (--n > 0); } return w; }
static struct Node *push(struct Node *h, int v) { struct Node *n = malloc(sizeof *n); n->v = v; n->next = h; return n; }
static struct Node *rev(struct Node *h) { struct Node *r = 0; while (h) { struct Node *nx = h->next; h->next = r; r = h; h = nx; } return r; }
static long nosproto(); static long nosproto(int a, double b) { return a + (long)b - 3; }
static const char *fname(void) { return __func__; }
static unsigned hash(const char *s) { unsigned h = 5381; while (*s) h = h * 33 ^ (unsigned char)*s++; return h; }
static long vsum(int n, va_list ap) { long s = 0; while (n--) s += va_arg(ap, long); return s; }
static long lsum(int n, ...) { va_list ap; va_start(ap, n); long s = vsum(n, ap); va_end(ap); return s; }
static double favg(int n, ...) { va_list ap; va_start(ap, n); double s = 0; for (int i = 0; i < n; i++) s += va_arg(ap, double); va_end(ap); return s / n; }
static int isq(int x) { static int calls; calls++; return x * x + calls * 0; }
static int gcd(int a, int b) { return b ? gcd(b, a % b) : a; }
static void fill(int n, int a[n][n]) { for (int i = 0; i < n; i++) for (int j = 0; j < n; j++) a[i][j] = i * n + j; }
static long trace(int n, int a[n][n]) { long s = 0; for (int i = 0; i < n; i++) s += a[i][i]; return s; }
int main(void) {
  R(alpha + beta + gamma); R(strlen(xnames[2])); R(sizeof xnames / sizeof *xnames); R(fn_1() + fn_22() + fn_333()); R(COUNT(1, 2, 3, 4)); R(COUNT(7)); R(MAX(3, MAX(9, 4)));
  int sa = 1, sb = 2; SWAP(int, sa, sb); R(sa * 10 + sb); if (sa) SWAP(int, sa, sb); else sa = 0; R(sa);
  struct Node *h = 0; for (int i = 1; i <= 5; i++) h = push(h, i * i); h = rev(h); long acc = 0; for (struct Node *p = h; p; p = p->next) acc = acc * 10 + p->v % 10; R(acc); while (h) { struct Node *n = h->next; free(h); h = n; }
  struct Flex *fx = malloc(sizeof *fx + 4 * sizeof(short)); fx->n = 4; for (int i = 0; i < fx->n; i++) fx->d[i] = i * 1000 - 1500; R(fx->d[0] + fx->d[3]); R(sizeof *fx); R(offsetof(struct Flex, d)); free(fx);
  R(sizeof(struct Pad)); R(offsetof(struct Pad, b)); R(offsetof(struct Pad, c)); R(offsetof(struct Pad, d)); R(offsetof(struct Pad, e)); R(_Alignof(struct Pad));
  struct In in = { .p = { 1, 2 }, .a = { [1] = 5 }, .u.f = 2.0f }; struct In in2 = in; in2.p.y = 9; R(in.p.y + in2.p.y); R(in.a[0] + in.a[1] + in2.a[2]); R(in2.u.i == in.u.i); R(memcmp(&in, &in2, sizeof in) != 0); in2 = in; R(memcmp(&in.p, &in2.p, sizeof in.p));
  int arr[] = { 5, -3, 9, 0, 2, 2, -8 }; qsort(arr, 7, sizeof *arr, cmp_int); R(arr[0] * 100 + arr[6]); qsort(arr, 7, sizeof(int), cmp_rev); R(arr[0] * 100 + arr[6]); cmpfn fns[] = { cmp_int, cmp_rev }; R(fns[1](&arr[0], &arr[1]));
  const char *strs[] = { "pear", "apple", "fig", "banana" }; qsort(strs, 4, sizeof *strs, cmp_str); R(strs[0][0] * 256 + strs[3][0]); int key = 2, *found = bsearch(&key, (int[]){-8, -3, 0, 2, 2, 5, 9}, 7, sizeof(int), cmp_int); R(found ? *found : -1);
  switch (setjmp(jb)) { case 0: depth(50); break; case 42: R(42); break; default: R(-1); }
  char src[] = "abcdefghijklmnopqrstu", dst[32] = {0}; R(duff(dst, src, 21)); R(strcmp(dst, src)); memset(dst, 0, sizeof dst); R(duff(dst, src, 8)); R(strlen(dst));
  R(nosproto(1, 2.0)); R(strcmp(fname(), "fname")); R(strcmp(__func__, "main")); R(hash("hello") % 1000); R(hash("") == 5381);
  R(lsum(3, 1L, 2L, 3L)); R(lsum(7, 1L, 2L, 3L, 4L, 5L, 6L, 1L << 40)); R((long)(favg(4, 1.0, 2.0, 3.0, 4.0) * 100)); R((long)(favg(9, 1., 2., 3., 4., 5., 6., 7., 8., 9.) * 10));
  R(isq(3) + isq(4)); R(gcd(1071, 462)); int n = 5; int sq[n][n]; fill(n, sq); R(trace(n, sq)); R(sq[4][3]); R(sizeof sq);
  char c = 200; c >>= 1; R(c); unsigned char uc2 = 200; uc2 >>= 1; R(uc2); c = 100; c += 100; R(c); c = -128; c--; R(c); short s = 32767; s++; R(s); unsigned short us = 0; us--; R(us); int i5 = INT_MAX; R((unsigned)i5 + 1 > 0); R(-7 / 2); R(-7 % 2); R(7 / -2); R(7 % -2); R((-7) >> 1); R(-7u / 2 > 100);
  int sh = 33; R(1L << sh); R(1u << (sh - 2)); R((int)(1u << 31) < 0); R(0xffu << 24 >> 24); R((signed char)0x80 >> 7); R((uint64_t)1 << 63 >> 63); R((int64_t)((uint64_t)1 << 63) >> 63);
  unsigned u = 0; u -= 1; R(u == UINT_MAX); R(u + 2); uint8_t u8 = 250; u8 += 10; R(u8); uint16_t u16 = 65535; u16 *= 2; R(u16); int8_t i8 = 127; i8 += 1; R(i8); R((uint8_t)(u8 - 10) > 0); R(u8 - 10 > 0);
  long l = LONG_MIN; R(l < 0); R(-(l + 1) == LONG_MAX); R(l / -2 > 0); R((unsigned long)l >> 63); R(LLONG_MAX / 3 * 3 + LLONG_MAX % 3 == LLONG_MAX); R(ULONG_MAX % 10); R(SIZE_MAX == ULONG_MAX); R(sizeof(ptrdiff_t) + sizeof(size_t) + sizeof(intptr_t));
  float f = 16777216.0f; R(f + 1 == f); R((double)f + 1 == f); R((int)(f + 1.0f)); double d = 0.1; R((int)(d * 10)); R((int)(0.7 * 10)); R((int)(d * 3 * 10)); R((long)(1e15 + 0.5)); R((int)-2.5); R((int)2.5f); R((unsigned char)(int)300.7); R(1.0f / 3 == 1.0 / 3); R((float)(1.0 / 3) == 1.0f / 3);
  long double ld = 1.0L / 3; R(ld > 1.0 / 3); R((double)ld == 1.0 / 3); R((long)(ld * 3000)); R(sizeof ld); R((int)(ld * 3 + 0.5L));
  char buf[64]; R(snprintf(buf, sizeof buf, "%d|%5.2f|%c|%s|%ld|%u|%x|%lld|%hhd|%hd|%%|%p", -1, 3.14159, 'z', "str", 1L << 40, 3000000000u, 255, -1LL, (char)-1, (short)-2, (void *)0) > 10); R(hash(buf) % 100000);
  R(snprintf(buf, sizeof buf, "%.3Lf %e %g %+d % d %05d %-5d| %.2s %*d", 2.5L, 12345.678, 0.0001, 5, 5, 42, 42, "abcdef", 4, 7)); R(hash(buf) % 100000);
  int x = 10; int *px = &x, **ppx = &px; **ppx += 5; R(x); *px *= 2; R(x); R(&x == px); R(*&*&x); R((*ppx)[0]); int ar2[3] = {1, 2, 3}; int *e = ar2 + 3; R(e - ar2); R(e[-1]); R(*(e - 3)); R(&ar2[1] < &ar2[2]); R((char *)&ar2[1] - (char *)ar2);
  const char *cs = "hello" " " "world"; R(strlen(cs)); R(cs[5]); R(sizeof "a\0b"); R(strlen("a\0b")); R("\x41\102\n"[1]); R('\'' + '"' + '\\' + '\?' + '\a' + '\e'); char ca[] = { 'h', 'i', 0 }; R(strlen(ca)); R(sizeof ca); char cb[10] = "hi"; R(cb[5]); R(sizeof cb);
  R(sizeof(int[n]) / sizeof(int)); R(sizeof(char[n + 1][2])); int m = 0; R(sizeof(int[m++ + 2]) / 4); R(m); R(sizeof(m++)); R(m); R(_Alignof(max_align_t) >= 16);
  int t3 = 0; for (int i = 0, j = 10; i < j; i += 2, j--) t3 += j - i; R(t3); int w = 0; while (w < 100) { if (w % 7 == 6) break; w += 3; } R(w); int dw = 0; do { dw += 5; if (dw == 10) continue; } while (dw < 20); R(dw);
  int sw2 = 0; for (int i = -2; i <= 3; i++) switch (i) { case -2: sw2 += 1; break; case -1 ... 1: sw2 += 10; break; case 3: sw2 += 100; } R(sw2); switch (5) { } switch (5) default: R(77); switch (0) case 0: case 1: R(78);
  enum { NEG = -3, BIG = INT_MAX } en = NEG; R(en < 0); R(sizeof en); R(BIG); R(NEG * 2); int flags = 0; enum { F1 = 1 << 0, F2 = 1 << 1, F3 = 1 << 30 }; flags |= F1 | F3; flags &= ~F1; R(flags == F3); R(!!(flags & F3));
  for (int i = 0; i < nr; i++) printf("%d=%ld\n", i, results[i]);
  return 0;
}
