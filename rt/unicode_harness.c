// C11 monitor: unicode.c of the tree under test, exhaustively over all 1 112 064 Unicode scalar values.
// Build: gcc -O1 -g -fsanitize=address,undefined -I<snapshot> -DUNICODE_C='"<snapshot>/unicode.c"' unicode_harness.c
#include UNICODE_C
#include <setjmp.h>

static jmp_buf jb;
static int in_decode;
void error(char *fmt, ...) { if (in_decode) longjmp(jb, 1); printf("VIOLATION abort error() called\n"); exit(3); }
void error_at(char *loc, char *fmt, ...) { if (in_decode) longjmp(jb, 1); printf("VIOLATION abort error_at() called\n"); exit(3); }
void error_tok(Token *tok, char *fmt, ...) { exit(3); }

// reference UTF-8 encoder (RFC 3629)
static int ref_encode(unsigned char *b, uint32_t c) {
  if (c < 0x80) { b[0] = c; return 1; }
  if (c < 0x800) { b[0] = 0xC0 | (c >> 6); b[1] = 0x80 | (c & 0x3F); return 2; }
  if (c < 0x10000) { b[0] = 0xE0 | (c >> 12); b[1] = 0x80 | ((c >> 6) & 0x3F); b[2] = 0x80 | (c & 0x3F); return 3; }
  b[0] = 0xF0 | (c >> 18); b[1] = 0x80 | ((c >> 12) & 0x3F); b[2] = 0x80 | ((c >> 6) & 0x3F); b[3] = 0x80 | (c & 0x3F); return 4;
}

// C11 Annex D, typed in from the standard (not from unicode.c)
static const uint32_t D1[][2] = {
  {0x00A8,0x00A8},{0x00AA,0x00AA},{0x00AD,0x00AD},{0x00AF,0x00AF},{0x00B2,0x00B5},{0x00B7,0x00BA},{0x00BC,0x00BE},{0x00C0,0x00D6},{0x00D8,0x00F6},{0x00F8,0x00FF},
  {0x0100,0x167F},{0x1681,0x180D},{0x180F,0x1FFF},
  {0x200B,0x200D},{0x202A,0x202E},{0x203F,0x2040},{0x2054,0x2054},{0x2060,0x206F},
  {0x2070,0x218F},{0x2460,0x24FF},{0x2776,0x2793},{0x2C00,0x2DFF},{0x2E80,0x2FFF},
  {0x3004,0x3007},{0x3021,0x302F},{0x3031,0x303F},
  {0x3040,0xD7FF},
  {0xF900,0xFD3D},{0xFD40,0xFDCF},{0xFDF0,0xFE44},{0xFE47,0xFFFD},
  {0x10000,0x1FFFD},{0x20000,0x2FFFD},{0x30000,0x3FFFD},{0x40000,0x4FFFD},{0x50000,0x5FFFD},{0x60000,0x6FFFD},{0x70000,0x7FFFD},
  {0x80000,0x8FFFD},{0x90000,0x9FFFD},{0xA0000,0xAFFFD},{0xB0000,0xBFFFD},{0xC0000,0xCFFFD},{0xD0000,0xDFFFD},{0xE0000,0xEFFFD},
};
static const uint32_t D2[][2] = {{0x0300,0x036F},{0x1DC0,0x1DFF},{0x20D0,0x20FF},{0xFE20,0xFE2F}};

static int in_tab(const uint32_t t[][2], int n, uint32_t c) { for (int i = 0; i < n; i++) if (t[i][0] <= c && c <= t[i][1]) return 1; return 0; }
static int ref_ident2(uint32_t c) {
  if (c < 0x80) return (c >= 'a' && c <= 'z') || (c >= 'A' && c <= 'Z') || (c >= '0' && c <= '9') || c == '_' || c == '$';
  return in_tab(D1, sizeof D1 / sizeof *D1, c);
}
static int ref_ident1(uint32_t c) {
  if (c < 0x80) return ref_ident2(c) && !(c >= '0' && c <= '9');
  return ref_ident2(c) && !in_tab(D2, sizeof D2 / sizeof *D2, c);
}

int main(void) {
  long n = 0, bad = 0, ident1 = 0, ident2 = 0;
  for (uint32_t c = 0; c <= 0x10FFFF && bad < 20; c++) {
    if (c >= 0xD800 && c <= 0xDFFF) continue;
    n++;
    char buf[8] = {0};
    unsigned char ref[8] = {0};
    int len = encode_utf8(buf, c);
    int rl = ref_encode(ref, c);
    if (len != rl || memcmp(buf, ref, rl)) { printf("VIOLATION codec encode_utf8 U+%04X len=%d expected %d\n", c, len, rl); bad++; continue; }
    char *end = NULL;
    if (c != 0) {
      in_decode = 1;
      uint32_t d = 0;
      if (setjmp(jb) == 0) d = decode_utf8(&end, buf); else { printf("VIOLATION codec decode_utf8 U+%04X rejected\n", c); bad++; in_decode = 0; continue; }
      in_decode = 0;
      if (d != c || end != buf + rl) { printf("VIOLATION codec decode_utf8 U+%04X gave U+%04X consumed %ld expected %d\n", c, d, (long)(end - buf), rl); bad++; continue; }
    }
    int i1 = is_ident1(c), i2 = is_ident2(c);
    ident1 += i1; ident2 += i2;
    if (!!i1 != ref_ident1(c)) { printf("VIOLATION ident is_ident1 U+%04X is %d, Annex D says %d\n", c, !!i1, ref_ident1(c)); bad++; }
    if (!!i2 != ref_ident2(c)) { printf("VIOLATION ident is_ident2 U+%04X is %d, Annex D says %d\n", c, !!i2, ref_ident2(c)); bad++; }
  }
  // invalid sequences must be rejected, never read past the terminator
  const char *inv[] = {"\x80", "\xbf", "\xc3", "\xc3(", "\xe2\x82", "\xe2(\xa1", "\xf0\x9f\x98", "\xf0(\x8c\xbc", "\xff"};
  long rejected = 0;
  for (unsigned i = 0; i < sizeof inv / sizeof *inv; i++) {
    char *heap = malloc(strlen(inv[i]) + 1);     // exact-size heap copy: ASan sees any over-read
    strcpy(heap, inv[i]);
    char *end;
    in_decode = 1;
    if (setjmp(jb) == 0) { decode_utf8(&end, heap); printf("VIOLATION codec invalid-sequence-%u accepted\n", i); bad++; } else rejected++;
    in_decode = 0;
    free(heap);
  }
  printf("STATS codepoints=%ld ident1=%ld ident2=%ld invalid_rejected=%ld violations=%ld\n", n, ident1, ident2, rejected, bad);
  return bad ? 1 : 0;
}
