#include <stdio.h>
#include <stdlib.h>
#include <string.h>
#include <math.h>
#include <ctype.h>
#include <stdint.h>
#include <stdbool.h>
#include <alloca.h>
static long results[800]; static int nr;
#define R(e) (results[nr++] = (long)(e))
typedef struct Shape Shape;
struct VT { double (*area)(const Shape *); const char *(*name)(const Shape *); };
struct Shape { const struct VT *vt; double a, b; };
static double rect_area(const Shape *s) { return s->a * s->b; }
static double circ_area(const Shape *s) { return 3.0 * s->a * s->a; }
static const char *rect_name(const Shape *s) { (void)s; return "rect"; }
static const char *circ_name(const Shape *s) { (void)s; return "circle"; }
static const struct VT rect_vt = { rect_area, rect_name }, circ_vt = { .name = circ_name, .area = circ_area };
static Shape shapes[] = { { &rect_vt, 2, 3 }, { &circ_vt, 2 }, { .vt = &rect_vt, .b = 5, .a = 4 } };
struct G { struct G *next; const char *s; int v[2]; };
static struct G g3 = { 0, "three", { 3, 33 } }, g2 = { &g3, "two", { 2 } }, g1 = { &g2, "one", { [1] = 11 } };
static struct G *ring[] = { &g1, &g2, &g3, &g1 };
static int *const pv = &g2.v[1]; static const char *const *pps = &g3.s; static char (*pa)[4] = &(char[4]){"abc"};
enum St { IDLE, RUN, DONE };
static int machine(const char *in) { enum St st = IDLE; int n = 0; for (; *in; in++) { switch (st) { case IDLE: if (*in == 's') st = RUN; break; case RUN: if (*in == 'e') st = DONE; else n++; break; case DONE: goto out; } } out: return n * 10 + st; }
static int gotosm(int x) { int steps = 0; s0: steps++; if (x & 1) goto s1; x /= 2; if (x) goto s0; goto end; s1: steps += 10; x = x * 3 + 1; if (steps < 500) goto s0; end: return steps; }
typedef struct { float x, y; } V2; typedef struct { double m[3]; } M3; typedef struct { char c; short s; } CS; typedef struct { long double l; char t; } LT;
static V2 v2add(V2 a, V2 b) { return (V2){ a.x + b.x, a.y + b.y }; }
static M3 m3scale(M3 a, double k) { for (int i = 0; i < 3; i++) a.m[i] *= k; return a; }
static CS csmk(int i) { CS r = { (char)i, (short)(i * 300) }; return r; }
static LT ltmk(long double l) { LT r = { l * 2, 'q' }; return r; }
static long double ldpoly(long double x, float a, double b, int c) { return x * x * a + x * b + c; }
static float fmix(float a, int b, float c, long d, float e, double f, float g, float h, float i, float j, float k) { return a + b + c + d + e + f + g + h + i + j + k; }
static int popcnt(uint64_t x) { int n = 0; while (x) { x &= x - 1; n++; } return n; }
static uint32_t rotl(uint32_t x, int k) { return x << k | x >> (32 - k); }
static uint64_t bswap(uint64_t x) { uint64_t r = 0; for (int i = 0; i < 8; i++) { r = r << 8 | (x & 0xff); x >>= 8; } return r; }
static uint32_t crc(const unsigned char *p, int n) { uint32_t c = ~0u; while (n--) { c ^= *p++; for (int k = 0; k < 8; k++) c = c >> 1 ^ (0xEDB88320u & -(c & 1)); } return ~c; }
static int cmpd(const void *a, const void *b) { double x = *(const double *)a, y = *(const double *)b; return x < y ? -1 : x > y; }
static bool isprime(unsigned n) { if (n < 2) return false; for (unsigned i = 2; i * i <= n; i++) if (n % i == 0) return false; return true; }
static long ack(long m, long n) { return m == 0 ? n + 1 : n == 0 ? ack(m - 1, 1) : ack(m - 1, ack(m, n - 1)); }
static void hanoi(int n, int a, int b, int c, long *moves) { if (!n) return; hanoi(n - 1, a, c, b, moves); ++*moves; hanoi(n - 1, c, b, a, moves); }
static char *itoa10(long v, char *buf) { char tmp[24]; int n = 0, neg = v < 0; unsigned long u = neg ? -(unsigned long)v : v; do tmp[n++] = '0' + u % 10; while (u /= 10); char *p = buf; if (neg) *p++ = '-'; while (n) *p++ = tmp[--n]; *p = 0; return buf; }
static int wordcount(const char *s) { int n = 0, in = 0; for (; *s; s++) if (isspace((unsigned char)*s)) in = 0; else if (!in) { in = 1; n++; } return n; }
static long sum_alloca(int n) { long *a = alloca(n * sizeof *a); for (int i = 0; i < n; i++) a[i] = i * i; long s = 0; for (int i = 0; i < n; i++) s += a[i]; return s; }
int main(void) {
  double tot = 0; for (unsigned i = 0; i < sizeof shapes / sizeof *shapes; i++) tot += shapes[i].vt->area(&shapes[i]); R(tot); R(strlen(shapes[1].vt->name(&shapes[1]))); R(shapes[2].vt == &rect_vt); R((long)shapes[1].b);
  long acc = 0; for (struct G *p = ring[0]; p; p = p->next) acc = acc * 100 + p->v[0] + p->v[1]; R(acc); R(*pv); R(strlen(*pps)); R((*pa)[2]); R(ring[3] == ring[0]); R(ring[1]->next->s[0]);
  R(machine("xxsabcdez")); R(machine("nothing")); R(machine("sab")); R(gotosm(27)); R(gotosm(1)); R(gotosm(64));
  V2 v = v2add((V2){1.5f, 2.5f}, (V2){0.25f, -1}); R(v.x * 100); R(v.y * 100); M3 m = m3scale((M3){{1, 2, 3}}, 2.5); R(m.m[0] + m.m[1] + m.m[2]); CS cs = csmk(7); R(cs.c * 10000 + cs.s); LT lt = ltmk(1.25L); R(lt.l * 100); R(lt.t);
  R(ldpoly(2.0L, 1.5f, 2.5, 3)); R(fmix(1, 2, 3, 4, 5, 6, 7, 8, 9, 10, 11)); R(v2add(v2add(v, v), v).x * 100); R(m3scale(m3scale(m, 2), 0.5).m[2]);
  R(popcnt(0xF0F0F0F0F0F0F0F0ull)); R(popcnt(~0ull)); R(rotl(0x80000001u, 1)); R(rotl(1, 31) >> 31); R(bswap(0x0102030405060708ull) == 0x0807060504030201ull); R(crc((const unsigned char *)"123456789", 9) == 0xCBF43926u);
  double ds[] = { 3.5, -1.25, 1e10, 0, -0.0, 2.5e-3 }; qsort(ds, 6, sizeof *ds, cmpd); R(ds[0] * 100); R(ds[5] / 1e9); R(ds[3] * 1e4);
  int pc = 0; for (unsigned i = 0; i < 100; i++) pc += isprime(i); R(pc); R(ack(2, 3)); long mv = 0; hanoi(10, 0, 1, 2, &mv); R(mv);
  char b1[32], b2[32]; R(strcmp(itoa10(-1234567890123L, b1), "-1234567890123")); R(strlen(itoa10(0, b2))); R(strcmp(itoa10(INT64_MIN, b1), "-9223372036854775808")); R(wordcount("  the quick\tbrown\n fox ")); R(sum_alloca(100));
  R(sqrt(2.0) * 1e6); R(pow(2.0, 10)); R(floor(-2.5)); R(ceil(-2.5)); R(fabs(-3.25) * 100); R(fmod(7.5, 2) * 10); R(sqrtf(16.0f)); R((long)(sin(0.0) + cos(0.0))); R((long)(exp(1.0) * 1000)); R((long)(log(100.0) / log(10.0) + 0.5)); R(lround(2.5)); R(lround(-2.5)); R(isnan(NAN)); R(isinf(INFINITY)); R(isinf(-HUGE_VAL) != 0); R(signbit(-0.0) != 0); R(fpclassify(1e-310) == FP_SUBNORMAL); R((long)(hypot(3, 4)));
  float ff = 0.1f; double dd = ff; R(dd == 0.1); R((long)(dd * 1e9)); R((long)(ff * 10)); R(ff * 10 == 1.0f); long double ll = 0.1L; R(ll == 0.1); R((double)ll == 0.1); R((long)(ll * 1e18L)); R(sizeof(ff * 1.0)); R(sizeof(ff * 1.0f)); R(sizeof(ff * 1.0L)); R(sizeof(1 ? ff : dd));
  char mb[16]; memset(mb, 'x', sizeof mb); memcpy(mb + 2, "hello", 6); memmove(mb + 3, mb + 2, 6); R(mb[2] * 256 + mb[3]); R(strlen(mb + 2)); R(memcmp(mb + 3, "hello", 6)); R(strchr(mb + 2, 'l') - mb); R(strrchr(mb + 2, 'l') - mb); R(strstr(mb + 2, "llo") - mb); R(strncmp("abcd", "abcf", 3)); R(strncmp("abcd", "abcf", 4) < 0);
  R(atoi("  -42xyz")); R(strtol("0x1F", 0, 16)); R(strtol("777", 0, 8)); R(strtoul("4294967295", 0, 10) == 4294967295ul); R((long)(strtod("1.5e3", 0))); R(abs(-5) + labs(-6L)); R(toupper('a') + tolower('Z') + isdigit('7') * 0 + !!isalpha('x') + !!isxdigit('g'));
  int8_t i8 = -128; R(-i8); R((int8_t)-i8); uint8_t u8 = 255; R(u8 + 1); R((uint8_t)(u8 + 1)); R(~u8); R((uint8_t)~u8); int16_t i16 = -32768; R(i16 / -1); R(i16 * i16); uint16_t u16 = 65535; R(u16 * u16 > 0); R((uint32_t)u16 * u16); int32_t i32 = INT32_MIN; R(i32 / 2); R((int64_t)i32 * i32); R(-(int64_t)i32); R(UINT32_MAX + 1ull); R((uint32_t)(UINT32_MAX + 1));
  bool bb = 5; R(bb); bb = 0.5; R(bb); bb = (void *)0; R(bb); bb++; R(bb); bb = !bb; R(bb); R(sizeof(bool)); R(true + true); bool ba[3] = { 2, 0, -1 }; R(ba[0] + ba[1] + ba[2]);
  for (int i = 0; i < nr; i++) printf("%d=%ld\n", i, results[i]);
  return 0;
}
