#!/usr/bin/env python3
"""Regenerates MANIFEST.json from the table below (run from /verif)."""
import json, os, subprocess
HERE = os.path.dirname(os.path.dirname(os.path.abspath(__file__)))
CHECKS = {
 'C13': dict(level='exploration', ref='3/C13', technique='fuzzing under ASan/UBSan + wait-status/diagnostic-format monitor on direct cc1 executions; every accepted output assembled',
             text='Every cc1 execution of the sanitizer build on the valid corpus, ~230 seeded invalid programs, option-borne texts, nesting cases and tens of thousands of token/byte mutants ended either with assembler-accepted output or with a located diagnostic; any signal, abort, internal error, sanitizer report, unlocated or out-of-range diagnostic, assembler rejection or (re-run-confirmed) hang is a violation keyed by kind + in-repo frames. Sampling of an infinite input space: exploration.',
             note='gcc ASan/UBSan runtime, GNU as; ASan strict_memcmp=0; command-line-borne errors and end-of-file positions accepted as located (DESIGN 3/C13); presumed line numbers after #line not range-checked'),

 'C17': dict(level='exploration', ref='3/C17', technique='hashmap.c #included into an ASan/UBSan harness: exhaustive small-scope histories + long random histories vs reference model with structural invariant walks; end-to-end #define/#undef/-D/-U histories through chibicc -E vs dict',
             text='Online checker of the dictionary specification: after every operation the table answer is compared with a reference model and structural invariants (no duplicate live key, used == non-empty slots, an empty slot exists, every live key reachable from its home slot) are walked. The space of put/get/delete histories of length <= 7 over 3 colliding keys is enumerated completely (reported as an exhaustive sub-space); longer histories, table growth and the real macro table are sampled.',
             note='gcc ASan/UBSan; the harness reads hashmap.c statics but only calls its public functions; model = last write wins'),

 'C14': dict(level='fault_enumeration', ref='3/C14', technique='fault injection (LD_PRELOAD constructor keyed on a shared per-role counter; strace syscall injection for fork) + offline checker over the process-tree event log and directory snapshots',
             text='The finite space command shape {-E,-S,-c,link} x {-o,default} x 1..3 inputs over {.c,.s,.o} is walked completely; for every legal shape every pipeline step (k-th cc1, k-th as, ld) is made to fail by exit status and by signal, with the outputs absent or pre-existing with a sentinel; natural failures (syntax error, missing/directory input, unwritable output), illegal shapes, concurrent drivers in one directory and (thorough) failing fork() are added. The checker decides exit status, temp-file conservation (mkstemp set = unlinked set, nothing left), sentinel integrity, directory diff and cross-unlink from the recorded events.',
             note='faults fire at process start of the k-th child; partial-progress crashes of as/ld and a driver killed from outside are not modelled; GNU as/ld own-output handling on their own failures is not charged to the driver'),

 'C01': dict(level='exploration', ref='3/C01', technique='differential execution monitor: raw result bytes + type of every observed expression vs executable Python C11 model == gcc == clang; operands from run-time tables in a gcc-compiled object',
             text='Each observation runs chibicc-compiled code on operands read from run-time tables and records the object representation and the type (size, signedness) of the result; the oracle is a Python model of C11 6.3.1/6.5 cross-checked against gcc and clang on the same run. The finite dimension operator x (lhs type, rhs type) x context is enumerated completely (grid), operand values are boundary + random samples, composites are random trees: exploration.',
             note='gcc/clang -O0 as references; plain char signed, arithmetic >> of negative values, modular conversion to signed (psABI/gcc); two open findings on _Bool ++/-- carried by exact key'),
 'C07': dict(level='exploration', ref='3/C07', technique='self-consistency monitor (constant context vs run-time twin on volatile operands in one chibicc-compiled run) + Python C11 model == gcc == clang; cc1 wait-status monitor (ASan/UBSan build) for division by zero in every constant position',
             text='Random constant expressions over literals of every C11 literal type, sizeof, enum constants and all operators are placed in 11 constant-demanding positions and evaluated once more at run time on volatile copies of the same operands; disagreement between the two, or with the model, is a violation. Floating constant expressions are compared bit-exactly static vs run time. 143 undefined-expression x position cells are run through the sanitizer build and must end in a located diagnostic.',
             note='gcc/clang -O0 as references; INT_MIN/-1 treated as undefined (any non-crash outcome accepted)'),

 'C02': dict(level='exploration', ref='3/C02', technique='differential execution monitor on raw object representations (gcc == clang as executable references, exact Fraction domain monitor for fp->int) + x87/MXCSR control-word statement probes in the emitted code',
             text='Floating operands are bit patterns read from run-time tables; every observation records the 4/8/10 significant bytes of the result. Operators x type pairs x value classes and all conversions with a floating side are walked as a grid over boundary classes (zeros, denormals, 2^24, 2^31, 2^32, 2^53, 2^63, 2^64-1, inf, NaNs, halfway cases), in cast/assignment/argument/return/op=/variadic contexts, plus literals and random composites. The chibicc build carries statement probes that check the x87 control word and MXCSR after every statement.',
             note='gcc -O0 == clang -O0 trusted where they agree; NaN payload/sign ignored; out-of-range fp->int not generated (undefined)'),

 'C08': dict(level='exploration', ref='3/C08', technique='differential layout monitor: sizeof/_Alignof/member offsets and observed bit images (set one member, dump bytes) printed by chibicc-compiled code vs gcc == clang as psABI reference implementations',
             text='All permutations of all valid C11 type-specifier multisets are enumerated (exhaustive sub-space); struct/union member sequences with bit-fields (incl. zero-width and unnamed), nested/anonymous aggregates, flexible array members, aligned/_Alignas/packed are sampled randomly (6 000 types, ~95 000 layout observations per quick run); bit-field positions are observed through byte images rather than trusted; declarators are checked through sizeof.',
             note='gcc == clang trusted as the psABI; packed structs with bit-fields only in the dedicated probe of an open finding; no system headers in layout TUs (glibc defines __attribute__ away for non-GNU compilers)'),

 'C04': dict(level='exploration', ref='3/C04', technique='differential execution monitor with guard objects and position-dependent pattern fill (every named leaf dumped after each store) vs gcc == clang; runtime object registry (overlap/alignment/pattern) for VLA and alloca blocks; frame probes active',
             text='For random aggregate shapes every sampled leaf lvalue is written through one of seven access forms after the enclosing object and two guards were filled with a pattern; all leaves and the guards are dumped, so a wrong address, width, mask or a disturbed neighbour shows up as a member-wise difference from gcc == clang. VLA/alloca blocks of sizes 0..4096 at several call depths and inside argument lists are registered with the runtime, which asserts non-overlap, alignment and pattern integrity; statement probes check the frame invariant while the temp area is moved.',
             note='padding never compared; packed aggregates excluded (C08 findings); gcc == clang trusted for member values'),

 'C05': dict(level='exploration', ref='3/C05', technique='differential + self-consistency execution monitor: the same initializer text for a static and an automatic object (stack dirtied first), member-wise dumps and raw static bytes vs gcc == clang',
             text='Random object types get random valid initializer spellings drawn from the 6.7.9 grammar (brace elision, nested/out-of-order designators, ranges, short lists, trailing commas, scalar re-initialisation, strings of every prefix incl. braced and concatenated, unions by first member and by designator, unknown bounds, flexible array members, address constants with offsets). Every named leaf of both storage classes is dumped; zero fill is only credible because the stack is dirtied before the automatic instance is created.',
             note='gcc == clang trusted; generator avoids re-initialising an aggregate subobject with braces (open finding pinned by test/initializer.c, probed separately) and pointers inside unions (absolute addresses)'),

 'C06': dict(level='exploration', ref='3/C06', technique='2x2 caller/callee matrix (chibicc/gcc, clang as tie-breaker) with unique-id argument leaves and logged receive/return events; stack dirtying; call-site alignment probes (hook), entry alignment checks in gcc callees, callee-saved canaries (asm trampoline), dirty-upper-bits trampolines',
             text='Every signature is exercised in gcc->gcc, clang->clang, chibicc->chibicc, chibicc->gcc and gcc->chibicc; the callee logs every scalar leaf it received, the caller what came back, so a mismatch names the parameter. The grid argument class (23) x GP registers used (0..7) x SSE registers used (0..9) is walked completely with cycling return classes; 3 000 random signatures (by-value structs/unions with bit-fields, long double, up to 12 parameters) and variadic functions are added. Absolute monitors: 16-byte alignment at every emitted call and at every gcc callee entry, rbx/rbp/r12-r15/rsp/DF canaries, narrow values with garbage in the unspecified upper bits.',
             note='gcc == clang trusted as the psABI; features of open findings (struct{long double} return, struct va_arg, x87 live across calls, padding-only eightbyte) only in dedicated probes; struct shapes within a class are sampled'),

 'C20': dict(level='exploration', ref='3/C20', technique='statement / call-site / function-entry probes emitted by the guarded hook (frame invariant rsp + 8*depth == alloca_bottom, x87 depth vs function entry, x87 CW and MXCSR, 16-byte alignment) executed under repetition counts 1/9/1000/100000, plus value-independence-of-N and gcc as reference; the probed stage-2 compiler as realistic workload',
             text='Every expression/statement form x result type (scalars, long double, five aggregate shapes, void) is placed in discarding and value-using positions inside loops; the probes assert at every statement boundary that neither the machine stack nor the x87 register stack kept a residue, and the values computed afterwards must not depend on the iteration count. The whole self-compiled compiler built with probes then compiles its own sources and the test corpus (~1.5e8 probe executions per quick run).',
             note='only statement boundaries are observed; x87 depth is compared with the depth at function entry (caller-held long double across calls is a separate open C06 finding)'),

 'C03': dict(level='exploration', ref='3/C03', technique='execution-trace monitor: MARK(id) event sequences (fuel-bounded) and printed binding identities of chibicc-compiled programs vs gcc == clang',
             text='Random structured functions over all statement forms (switch on every integer type with negative, >32-bit and range labels, default in every position, fall-through, labels inside nested statements, break/continue in mixed loop/switch nestings, forward/backward/computed goto, short-circuit, ?:, comma, statement expressions) are instrumented with markers in sequenced positions; the recorded trace must equal the references. Scoping programs give every declaration a unique value or size across file/parameter/block/for-init scopes and the five name spaces; each use prints what it bound to.',
             note='gcc == clang trusted; only terminating, defined programs (per-loop counters + global fuel); depth <= 5'),

 'C09': dict(level='exploration', ref='3/C09', technique='differential monitor on preprocessor executions: chibicc -E (ASan/UBSan build) vs gcc -E == clang -E, outputs re-lexed by one pp-tokenizer and compared token by token; termination watchdog with re-run protocol',
             text='Random macro definition sets and invocation texts over a small alphabet exercise object-like and function-like macros, recursion shapes, # and ## with all empty/non-empty operand combinations and chains, variadics (__VA_ARGS__, named, __VA_OPT__, `, ##`), nested and multi-line invocations, function-like names without parentheses, #undef/redefinition and __COUNTER__. A case counts only if gcc and clang both accept it and agree; then every token chibicc prints must match.',
             note='constructs C11 leaves unspecified or undefined are not generated (function-like name at the end of a replacement list taking arguments from outside, directives inside arguments); ~25 % of generated cases are discarded because the references reject them (invalid pastes)'),

 'C19': dict(level='exploration', ref='3/C19', technique='round-trip monitor on compiler executions: -E text re-lexed by an independent pp-tokenizer vs gcc -E == clang -E tokens, E(E(x)) == E(x), and asm(E(x)) == asm(x) modulo line records for the test corpus',
             text='All ordered pairs of 46 token classes are made adjacent through macro expansion in nine ways (with/without white space, through empty macros, comments, argument substitution) - an exhaustive grid - plus random longer sequences; what -E prints must re-lex to the intended token sequence and be a fixpoint. For every bundled test program and the compiler sources, compiling the -E output must produce the same assembly as compiling the source.',
             note='pairs rejected by or ambiguous between gcc and clang are discarded; the pp-tokenizer in lib/pptok.py is the trusted lexer'),

 'C10': dict(level='exploration', ref='3/C10', technique='differential monitor on preprocessor executions over generated conditional nestings and generated directory trees + option orders: chibicc -E (ASan/UBSan build) tokens vs gcc -E == clang -E; unique marker tokens per group/file',
             text='Conditional nestings to depth 5 use #if expressions generated with a Python intmax_t/uintmax_t model (only defined operations; values around 2^31/2^63, defined, unknown identifiers), every #elif/#else shape, garbage and directives inside skipped groups and trailing tokens on directive lines. Include graphs are generated on disk: same-named headers in the includer directory, -I directories in random order and spelling, -idirafter, quote/angle/macro-expanded names, #include_next chains, seven header styles around include guards and #pragma once, -include and -D/-U orders. Markers make a token diff name the wrongly taken or skipped group/file.',
             note='gcc == clang trusted; no fake system directory (chibicc has no -isystem); cases the references reject (unresolvable includes) are discarded'),

 'C18': dict(level='exploration', ref='3/C18', technique='run-time monitor of printed __LINE__/__FILE__ against the generator line table == gcc == clang; diagnostic-location monitor on cc1 executions with planted errors; parser of .file/.loc records in -S output checked against the token-carrying physical lines',
             text='Probe statements are spread over a main file and up to two headers and separated by random blank lines, line and block comments (multi-line, with splices, `/*/`), backslash-newlines between and inside tokens, CR-LF and lone-CR line ends, nested probe macros and multi-line invocations. Because one miscounted line shifts everything after it, every probe after a transformation is checked. One third of the files carry a planted undefined identifier (plain, macro body, macro argument, pasted, next to #) whose diagnostic must name the planting line; every .loc record must point at a line that carries a token.',
             note='generator line table cross-checked against gcc == clang (disagreeing probes discarded); #line only in the dedicated probe of the open finding pinned by test/line.c; diagnostics inside macros may name definition or invocation line'),

 'C11': dict(level='exploration', ref='3/C11', technique='exhaustive ASan/UBSan harness around unicode.c (codec round trip vs reference encoder, identifier classes vs Annex D typed from the standard) + differential execution monitor for literal values/types/bytes vs Python C11 ladder / Python codecs == gcc == clang, repeated under BOM/CRLF/CR/splice transformations',
             text='The integer-literal typing ladder is walked as a grid (5 base spellings x 23 suffix spellings x 45 magnitudes at every threshold +-1); character constants and strings cover simple/octal/hex/universal escapes, all prefixes and every defined concatenation pair. All 1 112 064 Unicode scalar values go through encode_utf8/decode_utf8/is_ident1/is_ident2 (exhaustive sub-space, ~1 s); through the real compiler, code points at every plane, surrogate and encoding-length boundary plus random ones (thorough: all) are checked in U"", u"", u8"", "" and L"" arrays and character constants.',
             note='gcc == clang + Python codecs trusted; implementation-defined constants (multi-character, non-ASCII plain char) not generated'),

 'C16': dict(level='exploration', ref='3/C16', technique='pinned-thread stress of chibicc-emitted atomic sequences with per-thread result logs and an offline history checker (conservation, exact multiset of results, exactly-once token hand-over, CAS success chain / failure write-back); valgrind helgrind on the same binary as binary-level race detector',
             text='Threads are pinned to distinct CPUs behind a pthread barrier (threads of a fresh process otherwise run serially in this VM) and hammer one shared object per phase: 11 operation families x 6 width/signedness variants x 3 storage classes. Unique results make the histories unambiguous, so the checker decides indivisibility from the logs alone; hand-offs between threads and failed compare-exchanges are counted as evidence of real interleaving (tens of millions per quick run) and a run with too few is inconclusive. Helgrind re-runs a small instance and must report no race on the atomic objects.',
             note='schedules are those the 16 pinned cores produce (no enumeration of interleavings, x86-TSO only); gcc-compiled harness/checker and libpthread trusted; a non-terminating retry loop is reported after one re-run'),
 'C12': dict(level='exploration', ref='3/C12', technique='three-stage differential execution monitor: the gcc-built compiler, the compiler it builds and the compiler that one builds are run on the same corpus x option sets through the same cwd and argv[0]; exit status, stdout, stderr and output bytes compared; determinism monitor (ASLR off / padded environment / shifted clock) and valgrind memcheck on stage-2 runs',
             text='Every stage is hard-linked in turn into one job directory so that cwd and argv[0] (which reach the output through DW_AT_comp_dir and the include path) are identical, and the clock is pinned by a preloaded time(). Corpus: the 9 compiler sources, all bundled tests, generated control-flow / scope / macro / conditional programs from the other properties and invalid mutants whose diagnostics must agree too. Stage-3 objects of the compiler sources must equal stage-2 objects byte for byte.',
             note='only divergences on the generated corpus are visible; valid-program generators are those of C03/C09/C10, mutants those of C13'),
 'C15': dict(level='exploration', ref='3/C15', technique='symbol-table monitor (readelf of every produced object compared entry by entry with the gcc -O0 and clang -O0 objects and with a reachability model for static inline functions) plus differential execution of multi-unit programs built in 8 link configurations against gcc and clang builds',
             text='Units are generated with every legal declaration sequence per identifier (extern/tentative/initialised/static/thread-local/incomplete-array repeats, _Alignas), functions of every linkage flavour (static, extern, static inline, extern inline, inline + extern redeclaration) and a random reference graph (calls, address-taking, static-local and file-scope initialisers, cycles); x {-fcommon,-fno-common} x {PIC, non-PIC}. Link sets of 2-4 units + main share objects, TLS, header inline functions with static locals and string literals; built as default, -fno-common, -fPIC, shared library with PIC and non-PIC main, -static, and mixed gcc/chibicc objects; outputs print values, cross-unit address identity, alignment and per-thread TLS and must equal the reference builds.',
             note='symbols of static locals/literals (dot or .L names) are observed only through behaviour; function symbol sizes not compared; gcc/clang trusted as references (entry must equal either)'),
}
REASON_WIP = 'check not built yet in this session (planned, see DESIGN.md section 3); will be claimed once its monitor is silent on the unchanged tree'

def main():
    props = [json.loads(l) for l in open(os.path.join(HERE, 'properties.jsonl'))]
    hooks = subprocess.run(['git', '-C', '/repo', 'log', '--format=%H', '--grep=^verif hook'], capture_output=True, text=True).stdout.split()
    m = {
        'version': 1,
        'setup_cmd': './setup.sh',
        'hooks': {
            'guard': 'CHIBICC_VERIF',
            'enable': 'checks build a scratch copy of /repo with make CFLAGS="... -DCHIBICC_VERIF"; probes are emitted only when cc1 runs with CHIBICC_VERIF_PROBES=1 in its environment',
            'baseline_off_cmd': 'cd /repo && make clean >/dev/null 2>&1; make -j8 chibicc && make test',
            'source_commits': hooks,
            'add_only': True,
        },
        'engines': [{'name': 'check', 'path': 'check', 'serves_properties': sorted(CHECKS),
                     'kind_free_text': 'python3 driver: builds chibicc variants from /repo working tree into a scratch dir, runs property monitors (props/Cnn.py), matches violation keys against known_findings.txt, writes evidence'}],
        'checks': [],
        'not_applicable': [],
        'notes': 'Technique family: runtime monitoring and sanitizers. Exit 0 held / 1 VIOLATION / 2 inconclusive (harness). Known findings: known_findings.txt. See DESIGN.md.',
    }
    for p in props:
        pid = p['id']
        if pid in CHECKS:
            c = CHECKS[pid]
            m['checks'].append({
                'property_id': pid,
                'quick_cmd': './check %s --tier quick' % pid,
                'thorough_cmd': './check %s --tier thorough' % pid,
                'evidence_file': 'evidence/%s.json' % pid,
                'replay_cmd_template': './check %s --replay {path}' % pid,
                'engine': 'check',
                'level_claimed': {'category': c['level'], 'text': c['text'], 'design_ref': 'DESIGN.md section ' + c['ref']},
                'level_note': c['note'],
                'technique': c['technique'],
            })
        else:
            m['not_applicable'].append({'property_id': pid, 'reason': REASON_WIP})
    with open(os.path.join(HERE, 'MANIFEST.json'), 'w') as f:
        json.dump(m, f, indent=1)
    print('MANIFEST.json: %d checks, %d not_applicable' % (len(m['checks']), len(m['not_applicable'])))

if __name__ == '__main__':
    main()
