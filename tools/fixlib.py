import subprocess,sys,os
os.chdir('/repo')
def edit(path, old, new, count=1):
    s=open(path).read()
    assert s.count(old)>=1, (path, old)
    s=s.replace(old,new,count)
    open(path,'w').write(s)
def commit(msg):
    r=subprocess.run('make -j16 chibicc >/tmp/mk.log 2>&1 && make test >/tmp/mt.log 2>&1; echo $?',shell=True,capture_output=True,text=True)
    if r.stdout.strip()!='0':
        print(open('/tmp/mk.log').read()[-1500:]); print(open('/tmp/mt.log').read()[-1500:])
        raise SystemExit('make test failed: '+msg.split('\n')[0])
    subprocess.check_call(['git','commit','-q','-am',msg])
    print('committed:',msg.split('\n')[0])
