#!/usr/bin/env python3
"""Evaluate seeded mutants: /verif/seeded/<Cnn>/<name>/{patch.diff, demo/run.sh, meta.json}.

For every mutant: apply the patch to /repo (git apply, never committed), confirm that it builds, passes `make test` and
that its demonstration shows the misbehaviour (run.sh exits 1), run the owning check (quick, then thorough if quick is
silent and --thorough is given), record the outcome in meta.json and restore /repo (git checkout -- .).
usage: tools/seeded_eval.py [--thorough] [--others C13,C12] [Cnn[/name] ...]"""
import json, os, subprocess, sys, time

VERIF = os.path.dirname(os.path.dirname(os.path.abspath(__file__)))
REPO = '/repo'


def sh(cmd, **kw):
    return subprocess.run(cmd, shell=isinstance(cmd, str), stdout=subprocess.PIPE, stderr=subprocess.STDOUT, text=True, errors='replace', **kw)


def clean_repo():
    sh(['git', '-C', REPO, 'checkout', '--', '.'])
    sh('make -s -j8 chibicc', cwd=REPO)


def run_check(prop, tier):
    t0 = time.time()
    r = sh([os.path.join(VERIF, 'check'), prop, '--tier', tier], cwd=VERIF)
    keys = [l.strip()[5:].split(' (x')[0] for l in r.stdout.split('\n') if l.strip().startswith('key: ')]
    status = [l for l in r.stdout.split('\n') if l.startswith(prop + ' ')]
    return {'exit': r.returncode, 'keys': keys[:12], 'nkeys': len(keys), 'status': status[-1][:200] if status else r.stdout[-300:], 'wall_s': round(time.time() - t0, 1)}


def main():
    args = sys.argv[1:]
    thorough = '--thorough' in args
    others = []
    if '--others' in args:
        others = args[args.index('--others') + 1].split(',')
        del args[args.index('--others'):args.index('--others') + 2]
    args = [a for a in args if not a.startswith('--')]
    root = os.path.join(VERIF, 'seeded')
    todo = []
    for prop in sorted(os.listdir(root)):
        if not os.path.isdir(os.path.join(root, prop)):
            continue
        for name in sorted(os.listdir(os.path.join(root, prop))):
            d = os.path.join(root, prop, name)
            if not os.path.exists(os.path.join(d, 'patch.diff')):
                continue
            if args and prop not in args and '%s/%s' % (prop, name) not in args:
                continue
            todo.append((prop, name, d))
    if sh(['git', '-C', REPO, 'status', '--porcelain', '--untracked-files=no']).stdout.strip():
        print('refusing: /repo has local modifications')
        return 2
    for prop, name, d in todo:
        meta_p = os.path.join(d, 'meta.json')
        meta = json.load(open(meta_p)) if os.path.exists(meta_p) else {}
        print('== %s/%s: %s' % (prop, name, meta.get('summary', '')[:100]), flush=True)
        try:
            r = sh(['git', '-C', REPO, 'apply', os.path.join(d, 'patch.diff')])
            if r.returncode != 0:
                meta['confirmed'] = {'applies': False, 'detail': r.stdout[-200:]}
                print('   patch does not apply')
                continue
            b = sh('make -s -j8 chibicc 2>&1', cwd=REPO)
            t = sh('make -s test 2>&1 | tail -3', cwd=REPO)
            tests_ok = b.returncode == 0 and t.stdout.strip().endswith('OK') and 'Error' not in t.stdout
            demo = os.path.join(d, 'demo', 'run.sh')
            demo_mut = sh(['bash', demo, os.path.join(REPO, 'chibicc')], cwd=os.path.dirname(demo)).returncode if os.path.exists(demo) else None
            meta['confirmed'] = {'applies': True, 'builds': b.returncode == 0, 'tests_pass': tests_ok, 'demo_exit_on_mutant': demo_mut}
            res = {'quick': run_check(prop, 'quick')}
            if res['quick']['exit'] != 1 and thorough:
                res['thorough'] = run_check(prop, 'thorough')
            for o in others:
                if o != prop:
                    res['other:' + o] = run_check(o, 'quick')
            meta['detection'] = res
            meta['detected'] = any(v['exit'] == 1 for v in res.values())
        finally:
            clean_repo()
        demo = os.path.join(d, 'demo', 'run.sh')
        if os.path.exists(demo):
            meta['confirmed']['demo_exit_on_clean'] = sh(['bash', demo, os.path.join(REPO, 'chibicc')], cwd=os.path.dirname(demo)).returncode
        json.dump(meta, open(meta_p, 'w'), indent=1, sort_keys=True)
        print('   confirmed=%s detected=%s %s' % (meta['confirmed'], meta.get('detected'), {k: (v['exit'], v['keys'][:2]) for k, v in meta.get('detection', {}).items()}), flush=True)
    return 0


if __name__ == '__main__':
    sys.exit(main())
