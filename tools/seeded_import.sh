#!/bin/bash
# import /tmp/seeded_<id>/mN.{diff,json} + mN_demo/ into /verif/seeded/<id>/mN/{patch.diff,meta.json,demo/}
id=$1
for n in 1 2 3 4 5; do
  src=/tmp/seeded_$id
  [ -s $src/m$n.diff ] || continue
  d=/verif/seeded/$id/m$n
  mkdir -p $d
  cp $src/m$n.diff $d/patch.diff
  [ -f $src/m$n.json ] && cp $src/m$n.json $d/meta.json || echo '{}' > $d/meta.json
  rm -rf $d/demo; [ -d $src/m${n}_demo ] && cp -r $src/m${n}_demo $d/demo
  # drop binaries an agent may have left in the demo directory
  find $d/demo -type f -size +200k -delete 2>/dev/null
  find $d/demo -type f \( -name '*.o' -o -name 'a.out' -o -name '*.exe' \) -delete 2>/dev/null
done
ls /verif/seeded/$id
