#!/bin/bash
# import <srcdir>/mN.{diff,json} + mN_demo/ into /verif/seeded/<id>/m<N+offset>/{patch.diff,meta.json,demo/}
# usage: seeded_import.sh <Cnn> [srcdir=/tmp/seeded_<Cnn>] [offset=0]
id=$1
src=${2:-/tmp/seeded_$id}
off=${3:-0}
for n in 1 2 3 4 5; do
  [ -s $src/m$n.diff ] || continue
  d=/verif/seeded/$id/m$((n+off))
  mkdir -p $d
  cp $src/m$n.diff $d/patch.diff
  [ -f $src/m$n.json ] && cp $src/m$n.json $d/meta.json || echo '{}' > $d/meta.json
  rm -rf $d/demo; [ -d $src/m${n}_demo ] && cp -r $src/m${n}_demo $d/demo
  # drop binaries an agent may have left in the demo directory
  find $d/demo -type f -size +200k -delete 2>/dev/null
  find $d/demo -type f \( -name '*.o' -o -name 'a.out' -o -name '*.exe' \) -delete 2>/dev/null
done
ls /verif/seeded/$id
