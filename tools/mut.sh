#!/bin/bash
# usage: tools/mut.sh <patch.diff> <Cnn> [tier]  -- apply a patch to /repo, run the check, undo.
set -u
p=$(realpath "$1"); prop=$2; tier=${3:-quick}
cd /repo || exit 2
if ! git diff --quiet; then echo "/repo has uncommitted changes"; exit 2; fi
git apply "$p" || { echo "patch does not apply"; exit 2; }
cd /verif
./check $prop --tier $tier 2>&1 | grep -E "VIOLATION|KNOWN|HELD|VIOLATED|INCONCLUSIVE|key:" | cut -c1-220 | head -${MUT_LINES:-12}
git -C /repo checkout -- . 
