#!/usr/bin/env python3
"""Re-anchor seeded patches after /repo moved on (fix: commits near the mutated lines): patches that no longer apply with
git apply are retried with patch(1) fuzz and rewritten as a fresh diff; those that cannot be re-anchored are listed."""
import os, subprocess, sys, glob, json
REPO = '/repo'
def sh(c, **kw):
    return subprocess.run(c, shell=True, stdout=subprocess.PIPE, stderr=subprocess.STDOUT, text=True, **kw)
if sh('git -C /repo status --porcelain --untracked-files=no').stdout.strip():
    sys.exit('refusing: /repo has local modifications')
bad = []
for p in sorted(glob.glob('/verif/seeded/*/*/patch.diff')):
    if sh('git -C /repo apply --check ' + p).returncode == 0:
        continue
    r = sh('patch -p1 --fuzz=3 --no-backup-if-mismatch -i %s' % p, cwd=REPO)
    if r.returncode == 0 and not any(f.endswith('.rej') for f in os.listdir(REPO)):
        d = sh('git -C /repo diff').stdout
        open(p, 'w').write(d)
        mp = os.path.join(os.path.dirname(p), 'meta.json')
        m = json.load(open(mp)) if os.path.exists(mp) else {}
        m['rebased'] = True
        json.dump(m, open(mp, 'w'), indent=1, sort_keys=True)
        print('rebased', p)
    else:
        bad.append(p)
        print('CANNOT rebase', p, r.stdout[-200:])
    sh('git -C /repo checkout -- .; git -C /repo clean -fdq -e chibicc -e "*.o" -e test/*.exe 2>/dev/null; rm -f /repo/*.rej /repo/*.orig')
print('not re-anchored:', bad)
