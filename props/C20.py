"""C20 - evaluation leaves no residue on the machine stack or the x87 stack.

(1) Every expression/statement form x result type (incl. long double, aggregates, void) in discarding positions
    (expression statement, comma lhs, for-increment, unused call result, nested assignment, discarded ?:, (void) cast,
    statement expression) inside loops executed 1, 9 and 100 000 times, with the statement and call-site probes active:
    frame invariant rsp + 8*depth == alloca_bottom, x87 depth equal to the depth at function entry, control words intact,
    16-byte alignment at calls.  Values computed after the loop must not depend on the repetition count and must equal gcc.
(2) Every value-producing form used as an operand ("exactly one usable value").
(3) The stage-2 compiler itself, compiled with probes, compiling the corpus (realistic workload, ~10^7..10^8 probes)."""
import os, re, shutil
from lib import core, cint

LEVEL = 'exploration'
MIN_COUNTS = {'forms': (1500, 20000), 'statement_probes_executed': (5000000, 50000000)}

TYPES = [('char', 'i8'), ('unsigned short', 'u16'), ('int', 'i32'), ('unsigned long', 'u64'), ('_Bool', 'bool'), ('float', 'f32'), ('double', 'f64'),
         ('long double', 'f80'), ('char *', 'ptr'), ('struct S8', 'S8'), ('struct S16', 'S16'), ('struct SF', 'SF'), ('struct S40', 'S40'), ('struct SL', 'SL')]

PRELUDE = r'''#include "vrt.h"
#ifndef __chibicc__
void *alloca(unsigned long);
#endif
struct S8 { int a; short b; };
struct S16 { long a; double b; };
struct SF { float a, b, c; };
struct S40 { long a[5]; };
struct SL { long double a; int b; };
static char gbuf[64];
static char ret_i8(void) { return -3; }
static unsigned short ret_u16(void) { return 65000; }
static int ret_i32(void) { return -7; }
static unsigned long ret_u64(void) { return 1UL << 63; }
static _Bool ret_bool(void) { return 1; }
static float ret_f32(void) { return 1.5f; }
static double ret_f64(void) { return 2.25; }
static long double ret_f80(void) { return 3.125L; }
static char *ret_ptr(void) { return gbuf + 3; }
static struct S8 ret_S8(void) { struct S8 s = {1, 2}; return s; }
static struct S16 ret_S16(void) { struct S16 s = {3, 4.5}; return s; }
static struct SF ret_SF(void) { struct SF s = {1, 2, 3}; return s; }
static struct S40 ret_S40(void) { struct S40 s = {{1, 2, 3, 4, 5}}; return s; }
static struct SL ret_SL(void) { struct SL s = {6.5L, 7}; return s; }
static void ret_void(void) { }
static long many(long a, long b, long c, long d, long e, long f, long g, long h, long double x, double y, struct S40 s) { return a + h + s.a[4] + (long)x + (long)y; }
struct S300 { int a[75]; };
static long gacc;
static long take_big(void *p, struct S300 b) { long r = p != 0; for (int i = 0; i < 75; i++) r += b.a[i] * (i + 1); return r; }
static long sum40(void *p, long a1, long a2, long a3, long a4, long a5, long a6, long a7, long a8, long a9, long a10, long a11, long a12, long a13, long a14, long a15, long a16,
                  long a17, long a18, long a19, long a20, long a21, long a22, long a23, long a24, long a25, long a26, long a27, long a28, long a29, long a30, long a31, long a32,
                  long a33, long a34, long a35, long a36, long a37, long a38, long a39) {
  return (p != 0) + a1 + 2 * a2 + a3 + a4 + a5 + a6 + 7 * a7 + a8 + a9 + a10 + a11 + a12 + a13 + a14 + a15 + a16 + a17 + a18 + a19 + 20 * a20 + a21 + a22 + a23 + a24 + a25 + a26 + a27 + a28 + a29 +
         a30 + a31 + a32 + a33 + a34 + a35 + a36 + a37 + 38 * a38 + 39 * a39; }
static long many7(long a, long b, long c, long d, long e, long f, long g, long double x, double y, struct S40 s) { return a + g + s.a[4] + (long)x + (long)y; }
static long many9(long a, long b, long c, long d, long e, long f, long g, long h, long i, long double x, struct SL s, long double z) { return a + i + (long)x + s.b + (long)z; }
static _Thread_local long tl1 = 3; _Thread_local long double tl2 = 1.5L; static _Thread_local struct S16 tl3 = {3, 4.5};
long double vrt_x87_heavy(void);
static struct SL sl_heavy(void) { struct SL s = { vrt_x87_heavy(), 7 }; return s; }
static struct SL sl_tab[2] = { { 1.5L, 1 }, { 2.5L, 2 } };
static int idx_heavy(void) { return vrt_x87_heavy() > 7 ? 1 : 0; }
static void chk(long id, long double ld, double d, long i) { OUT(id, &ld, 10); OUT(id, &d, 8); OUTV(id, i); }
'''


def var_decl(cn, t, nm, val):
    if t.startswith('S'):
        init = {'S8': '{1, 2}', 'S16': '{3, 4.5}', 'SF': '{1, 2, 3}', 'S40': '{{1, 2, 3, 4, 5}}', 'SL': '{6.5L, 7}'}[t]
        return '%s %s = %s;' % (cn, nm, init)
    if t == 'ptr':
        return 'char *%s = gbuf + %d;' % (nm, val)
    if t == 'bool':
        return '_Bool %s = %d;' % (nm, val & 1)
    if t in ('f32', 'f64', 'f80'):
        return '%s %s = %d.5;' % (cn, nm, val)
    return '%s %s = %d;' % (cn, nm, val)


def forms_for(cn, t):
    """List of (form name, statements placed inside the loop). Variables: x, y, z of type T; idempotent for any repetition count."""
    agg = t.startswith('S')
    F = []
    F.append(('expr-stmt-var', 'x;'))
    F.append(('expr-stmt-call', 'ret_%s();' % t))
    F.append(('comma-lhs', '(ret_%s(), 1);' % t))
    F.append(('comma-lhs-var', 'k = (x, 2);'))
    F.append(('for-increment', 'for (int j = 0; j < 2; j++, ret_%s(), x) ;' % t))
    F.append(('void-cast', '(void)ret_%s(); (void)x;' % t))
    F.append(('assign', 'y = x;'))
    F.append(('nested-assign', 'z = y = x;'))
    F.append(('assign-call', 'y = ret_%s();' % t))
    F.append(('cond-discard', 'k ? x : y; (k ? ret_%s() : x);' % t))
    F.append(('cond-void-arm', 'k ? ret_%s() : (void)0; k ? (void)0 : x; (k - 1) ? (void)0 : ret_%s(); k ? x : ret_void();' % (t, t)))
    F.append(('return-value-in-void-function', 'fwd_%s(); fwdv_%s(x, k); fwdv_%s(x, k - 1);' % (t, t, t)))
    # long double operands that have to wait: nine and more operands nested to the right, and a right operand that is a member of a call result /
    # an element selected by a call (the callee uses all eight x87 registers, as the psABI allows)
    F.append(('ld-right-nested', 'ldz = ldx + (ldx + (ldx + (ldx + (ldx + (ldx + (ldx + (ldx + (ldx + (ldx + (ldx + ldy)))))))))); k = ldz == 12 * 1.25L + 2.5L ? 1 : 1;'))
    F.append(('ld-waits-for-member-of-call', 'ldz = ldx + sl_heavy().a; ldz = ldz * sl_tab[idx_heavy()].a; ldz = ldx - ((ldy + sl_heavy().a) * (ldx + sl_tab[idx_heavy()].a));'))
    F.append(('comma-in-member-base', '(ret_%s(), s40).a[1]; (x, s40).a[2];' % t))
    F.append(('stmt-expr-discard', '({ x; }); ({ ret_%s(); });' % t))
    F.append(('stmt-expr-used', 'y = ({ z = x; x; });'))
    F.append(('call-many-args', 'many(1, 2, 3, 4, 5, 6, 7, 8, 9.5L, 10.5, ret_S40()); k = many(1, 2, 3, 4, 5, 6, 7, 8, 1.0L, 2.0, s40) > 0;'))
    # a 16-byte-aligned stack argument behind an odd number of stack eightbytes needs 8 bytes of padding that must be released after the call
    F.append(('call-padded-stack-args', 'many7(1, 2, 3, 4, 5, 6, 7, 9.5L, 10.5, ret_S40()); k = (many7(1, 2, 3, 4, 5, 6, 7, 1.5L, 2.0, s40) + many9(1, 2, 3, 4, 5, 6, 7, 8, 9, 2.5L, ret_SL(), 3.5L)) == 41;'))
    # thread-local objects as operands while other operands are pending on the stack (with -fPIC every access is a call to __tls_get_addr)
    F.append(('tls-operands', 'k = 1 + (tl1 > 0) * 2 - 2; k = (k + tl1) < (tl1 + 5) ? 1 : 2; tl1 = 3 + (tl1 - tl1); tl2 = tl2 * 1 + 0 * tl1; tl3.a = tl3.a + 0 * tl1; '
              'k = many(tl1, 2, tl1, 4, tl1, 6, 7, tl1, tl2, tl3.b, s40) > 0; y = x; k = 1;'))
    F.append(('alloca-mixed', 'if (i < 40) { char *q = alloca(24); q[0] = 1; x; ret_%s(); gacc = q[0]; }' % t))
    # alloca() evaluated while 300 bytes of struct argument / 34 stack arguments are already pushed: the pending temporaries must move with the stack pointer
    F.append(('alloca-under-pending-args', 'if (i < 40) { gacc = take_big(alloca(64), s300); gacc += sum40(alloca(32), %s); }' % ', '.join(str(j) for j in range(1, 40))))
    F.append(('alloca-under-pending-values', 'if (i < 40) { gacc = many(1, 2, 3, 4, 5, 6, 7, (long)alloca(8) != 0, 9.5L, 10.5, ret_S40()) + ((long)alloca(16) != 0) * 3; }'))
    if agg:
        F.append(('member-of-call', 'ret_%s().a;' % t if t != 'S40' else 'ret_S40().a[2];'))
        F.append(('member-discard', 'x.a; y.a = x.a;' if t != 'S40' else 'x.a[1]; y.a[1] = x.a[1];'))
        F.append(('arg-by-value', 'k = take_%s(x);' % t))
    else:
        F.append(('unary', '-x; !x; +x;' if t not in ('ptr',) else '!x; *x;'))
        if t != 'ptr':
            F.append(('binary-discard', 'x + y; x * y; x < y; x == y; x && y; x || y;'))
            F.append(('compound-assign', 'y = x; y += x; y -= x;'))
            F.append(('incdec', 'y = x; y++; ++y; y--; --y;' if t != 'bool' else 'y = x;'))
            F.append(('cast-chain', '(long)x; (double)x; (long double)x; (float)x; (char)x; (_Bool)x;'))
            F.append(('cast-chain-2', '(short)x; (unsigned short)x; (int)x; (unsigned)x; (unsigned char)x; (unsigned long)x; (signed char)x; k = (short)x + (unsigned short)x + (int)x + (unsigned char)x;'))
            F.append(('cond-cond', 'if (x) k = 1; else k = 2; while (x && k > 5) k--; k = x ? 3 : 4; k = !x;'))
            F.append(('arg-mixed', 'many(x, x, x, x, x, x, x, x, x, x, s40);'))
        if t in ('i32', 'u64', 'i8', 'u16'):
            F.append(('bit-ops', 'x | y; x ^ y; x & y; x << 1; x >> 1; ~x; x %% (y | 1);'.replace('%%', '%')))
    return F


def unit(k, cn, t, name, body):
    """One test function t<k>(n): loop of the form, then checks that later long double / double / integer computations still work."""
    decls = [var_decl(cn, t, 'x', 5), var_decl(cn, t, 'y', 6), var_decl(cn, t, 'z', 7), 'int k = 1;', 'struct S40 s40 = {{1, 2, 3, 4, 5}};', 'struct S300 s300; for (int j = 0; j < 75; j++) s300.a[j] = j * 3 + 1; gacc = 0;',
             'volatile long double l1 = 1.25L, l2 = 2.5L; volatile double d1 = 0.5, d2 = 4.0; volatile long i1 = 11; long double ldx = 1.25L, ldy = 2.5L, ldz = 0;']
    fn = 'static void t%d(long n) {\n%s\nfor (long i = 0; i < n; i++) {\n%s\n}\nchk(%d, l1 * l2 + (l1 - l2) / l2, d1 * d2 - d1, i1 * 3 + k * 0 + gacc);\nOUT(%d, &ldz, 10);\n' % (k, '\n'.join(decls), body, k, k)
    # value visible after the loop (idempotent forms -> independent of n)
    if t.startswith('S'):
        fn += {'S8': 'OUTV(%d, y.a); OUTV(%d, y.b);', 'S16': 'OUTV(%d, y.a); OUT(%d, &y.b, 8);', 'SF': 'OUT(%d, &y.a, 4); OUT(%d, &y.c, 4);', 'S40': 'OUTV(%d, y.a[0]); OUTV(%d, y.a[4]);', 'SL': 'OUT(%d, &y.a, 10); OUTV(%d, y.b);'}[t] % (k, k) + '\n'
    elif t == 'f80':
        fn += 'OUT(%d, &y, 10);\n' % k
    elif t == 'ptr':
        fn += 'OUTV(%d, y - gbuf);\n' % k
    else:
        fn += 'OUT(%d, &y, sizeof y);\n' % k
    fn += '}\n'
    return fn


def run_tu(a):
    (idx, cc, work, src, n) = a
    p = os.path.join(work, 'tu%d_%d.c' % (idx, n))
    open(p, 'w').write(src.replace('REPEAT', str(n)))
    res = {}
    # every third unit is built as position-independent code (GOT / general-dynamic TLS access sequences) with 9 iterations
    pic = ['-fPIC'] if (n == 9 and idx % 3 == 0) else []
    for kind in (('chibicc', 'gcc') if n != 9 else ('chibicc',)):
        res[kind] = core.build_and_run(kind, cc, p, work, 'tu%d_%d' % (idx, n), timeout=300, probes=True, run_env={'VERIF_PROBE_REPORT': '1'}, extra_cflags=pic)
    os.unlink(p)
    return idx, n, res


def compile_with_stage(a):
    (cc2, d, src, out, extra) = a
    rc, o, e = core.sh([cc2, '-S', '-o', out] + extra + [src], cwd=d, env={'VERIF_PROBE_REPORT': '1'}, timeout=600)
    return src, rc, o, e


def run(ctx):
    cc = ctx.build('plain')
    work = ctx.tmpdir('c20')
    rng = ctx.rng
    ctx.rule = ('form = (expression/statement form in a discarding or value-using position, result type); each form runs in a loop of 1, 9 and 100000 iterations with '
                'statement/call-site/function-entry probes active; after the loop long double, double and integer computations and the form\'s own result are '
                'recorded and must be independent of the count and equal to gcc; plus the probed stage-2 compiler compiling the corpus; distinct = distinct (form, type)')
    ctx.assumptions += ['x87 depth is compared with the depth at function entry (a caller may hold a long double across a call: open finding of C06)',
                        'only statement boundaries are observed']
    takes = '\n'.join('static int take_%s(%s s) { return sizeof s > 0; }' % (t, cn) for cn, t in TYPES if t.startswith('S'))
    # `return e;` in a function returning void (accepted with a warning by gcc): the operand is evaluated and its value dropped
    takes += '\n' + '\n'.join('static void fwd_%s(void) { return ret_%s(); }\nstatic void fwdv_%s(%s v, int c) { if (c) return v; return (void)v; }' % (t, t, t, cn) for cn, t in TYPES)
    units = []
    k = 0
    meta = {}
    for cn, t in TYPES:
        for name, body in forms_for(cn, t):
            units.append(unit(k, cn, t, name, body))
            meta[k] = (name, t)
            ctx.saw((name, t))
            k += 1
    # combinations: two or three forms in one loop body (interactions between pending values)
    combos = ctx.scale(1500, 20000)
    allforms = [(cn, t, n, b) for cn, t in TYPES for n, b in forms_for(cn, t)]
    for _ in range(combos):
        cn, t = rng.choice(TYPES)
        fs = forms_for(cn, t)
        sel = [rng.choice(fs) for _ in range(rng.choice([2, 3, 4]))]
        body = '\n'.join(b for _, b in sel)
        if rng.random() < 0.3:
            body = '{ char *q = alloca(%d); q[0] = 1; %s gbuf[1] = q[0]; }' % (rng.choice([1, 8, 16]), body)
        if rng.random() < 0.2:
            body = 'if (i %% 2 == 0 || 1) { %s } else { %s }' % (body, sel[0][1])
        units.append(unit(k, cn, t, 'combo', body))
        meta[k] = ('+'.join(n for n, _ in sel), t)
        k += 1
    ctx.count('forms', k)
    per = 60
    tus = []
    for c0 in range(0, len(units), per):
        chunk = units[c0:c0 + per]
        calls = '\n'.join('t%d(REPEAT);' % (c0 + j) for j in range(len(chunk)))
        tus.append(PRELUDE + takes + '\n' + '\n'.join(chunk) + '\nint main(void) {\n' + calls + '\nreturn 0;\n}\n')
    jobs = []
    for i, src in enumerate(tus):
        for n in (1, 9, 100000 if i % ctx.scale(4, 1) == 0 else 1000):
            jobs.append((i, cc, work, src, n))
    results = core.pmap(run_tu, jobs)
    probes = 0
    byidx = {}
    for idx, n, res in results:
        byidx.setdefault(idx, {})[n] = res
    for idx, d in sorted(byidx.items()):
        src = tus[idx]
        files = {'tu.c': src}
        script = ('for n in 1 9 100000; do sed "s/REPEAT/$n/" tu.c > t.c; CHIBICC_VERIF_PROBES=1 $CHIBICC -I$VERIF/rt -c -o t.o t.c && gcc -o t t.o $RT && ./t > got.$n.txt || { tail -1 got.$n.txt; exit 1; }; done; '
                  'gcc -w -I$VERIF/rt -o r t.c $RT && ./r > ref.txt; cmp -s got.1.txt ref.txt || exit 1; cmp -s got.1.txt got.9.txt || exit 1; cmp -s got.1.txt got.100000.txt || exit 1; exit 0')
        base = None
        for n, res in sorted(d.items()):
            x = res['chibicc']
            out = x['out'].decode('utf-8', 'replace') if x['stage'] == 'run' else ''
            m = re.search(r'PROBES (\d+)', out)
            if m:
                probes += int(m.group(1))
            ctx.evaluations += per
            pf = re.search(r'PROBE-FAIL (\S+).*', out)
            lines = [l for l in out.split('\n') if l and not l.startswith('PROBES')]
            cur = None
            if pf or x['stage'] != 'run' or x['rc'] != 0:
                # which form was running: the last id seen + 1
                ids = [int(m2.group(1)) for m2 in re.finditer(r'^(\d+)[:=]', out, re.M)]
                kcur = (ids[-1] + 1) if ids else idx * per
                name, t = meta.get(kcur, ('?', '?'))
                what = pf.group(1) if pf else ('compile-fail' if x['stage'] == 'compile' else 'crash:%s' % x['rc'])
                ctx.violation('C20|%s|%s|%s' % (name if '+' not in name else 'combo', t, what),
                              'form "%s" on %s, %d iterations: %s' % (name, t, n, pf.group(0) if pf else core.first_line(x['err'].decode('utf-8', 'replace')) or out[-100:]), files=files, script=script)
                continue
            if 'gcc' in res:
                g = res['gcc']
                if g['stage'] != 'run' or g['rc'] != 0:
                    raise core.Inconclusive('gcc failed on a C20 TU: ' + g['err'].decode('utf-8', 'replace')[-300:])
                gl = [l for l in g['out'].decode().split('\n') if l and not l.startswith('PROBES')]
                if gl != lines:
                    dd = core.first_diff('\n'.join(lines).encode(), '\n'.join(gl).encode())
                    kcur = int(re.match(r'(\d+)', dd[2] if dd[2] != '<eof>' else dd[1]).group(1))
                    name, t = meta.get(kcur, ('?', '?'))
                    ctx.violation('C20|%s|%s|value' % (name if '+' not in name else 'combo', t), 'form "%s" on %s (%d iterations): chibicc %s, gcc %s' % (name, t, n, dd[1], dd[2]), files=files, script=script)
            if base is None:
                base = lines
            elif lines != base:
                dd = core.first_diff('\n'.join(lines).encode(), '\n'.join(base).encode())
                kcur = int(re.match(r'(\d+)', dd[2] if dd[2] != '<eof>' else dd[1]).group(1))
                name, t = meta.get(kcur, ('?', '?'))
                ctx.violation('C20|%s|%s|value-changes-with-N' % (name if '+' not in name else 'combo', t), 'form "%s" on %s: after %d iterations %s, after 1 iteration %s' % (name, t, n, dd[1], dd[2]),
                              files=files, script=script)
    # ---- probed stage-2 compiler compiling the corpus --------------------------------------------
    snap = ctx.snapshot()
    d2 = os.path.join(work, 's2p')
    os.makedirs(d2)
    shutil.copytree(os.path.join(snap, 'include'), os.path.join(d2, 'include'))
    srcs = sorted(f for f in os.listdir(snap) if f.endswith('.c'))

    def one(f):
        return f, core.sh([cc, '-c', '-o', os.path.join(d2, f[:-2] + '.o'), f], cwd=snap, env={'CHIBICC_VERIF_PROBES': '1'}, timeout=600)
    for f, (rc, o, e) in core.tmap(one, srcs):
        if rc != 0:
            raise core.Inconclusive('probed stage-2: cannot compile %s: %s' % (f, e.decode('utf-8', 'replace')[-300:]))
    cc2 = os.path.join(d2, 'chibicc')
    rc, o, e = core.link([os.path.join(d2, f[:-2] + '.o') for f in srcs], cc2)
    if rc != 0:
        raise core.Inconclusive('probed stage-2 link failed: ' + e.decode()[-300:])
    corpus = [(os.path.join(snap, f), ['-I' + snap]) for f in srcs]
    tests = sorted(f for f in os.listdir(os.path.join(snap, 'test')) if f.endswith('.c'))
    if ctx.quick():
        tests = tests[::3]
        corpus = corpus[::2] + [corpus[1]]
    corpus += [(os.path.join(snap, 'test', f), ['-I' + os.path.join(snap, 'test'), '-I' + snap]) for f in tests]
    jobs = [(cc2, d2, src, os.path.join(d2, 'out%d.s' % i), extra) for i, (src, extra) in enumerate(corpus)]
    s2probes = 0
    for (src, rc, o, e) in core.pmap(compile_with_stage, jobs):
        ctx.evaluations += 1
        ctx.count('stage2_compilations')
        ctx.saw(('stage2', os.path.basename(src)))
        out = o.decode('utf-8', 'replace')
        for m in re.finditer(r'PROBES (\d+)', out):
            s2probes += int(m.group(1))
        pf = re.search(r'PROBE-FAIL (\S+).*', out)
        if pf:
            ctx.violation('C20|stage2-probed|%s' % pf.group(1), 'probed stage-2 compiler compiling %s: %s' % (os.path.basename(src), pf.group(0)),
                          script='echo "rebuild the probed stage 2 (see props/C20.py) and compile %s"; exit 1' % os.path.basename(src))
        elif rc != 0:
            ctx.violation('C20|stage2-probed|compile-fail', 'probed stage-2 compiler failed on %s: rc=%s %s' % (os.path.basename(src), rc, core.first_line(e.decode('utf-8', 'replace'))))
    ctx.count('statement_probes_executed', probes + s2probes)
    ctx.count('stage2_probes_executed', s2probes)
    if s2probes == 0:
        ctx.note_inconclusive('probed stage 2 executed no probes')
    ctx.sample({'unit': units[3][:600]})
    ctx.sample({'combo_unit': units[-1][:700]})
