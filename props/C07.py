"""C07 - translation-time constant evaluation equals run-time evaluation.

Constant expressions (literals, casts, sizeof, enum constants, all operators) are placed in every syntactic position that
demands a constant: static initializer (every scalar type), array bound, case label, enumerator, bit-field width, _Alignas,
array designator - and once as ordinary code on the same operands read from volatile objects.  Oracle: the two values
inside one chibicc-compiled run must agree, and both must equal the Python C11 model (= gcc = clang).  Division by zero in
each position must give a located diagnostic (wait-status monitor on cc1)."""
import os, re
from lib import core, cint
from lib.cint import ALL, cname, leaf, ev, render, typeof, Undefined, BINOPS, UNOPS, to_bytes, convert, sizeof

LEVEL = 'exploration'
MIN_COUNTS = {'observations': (20000, 300000), 'div0_cases': (60, 60)}
PER_TU = 700
ALLOBS = []


def lit_of(t, v):
    """A literal (or cast literal) of exactly type t and value v."""
    if t == 'i32':
        return '(-2147483647-1)' if v == -(1 << 31) else ('(%d)' % v if v < 0 else '%d' % v)
    if t == 'u32':
        return '%dU' % v
    if t == 'i64':
        return '(-9223372036854775807L-1)' if v == -(1 << 63) else ('(%dL)' % v if v < 0 else '%dL' % v)
    if t == 'u64':
        return '%dUL' % v
    return '((%s)%d)' % (cname(t), v) if v >= 0 else '((%s)(%d))' % (cname(t), v)


def const_tree(rng, depth, leaves):
    """Random constant expression; `leaves` collects (index, type, value) so a run-time twin can be built."""
    def mkleaf():
        r = rng.random()
        if r < 0.25:
            l = cint.literal(rng)
            if l:
                leaves.append(l)
                return ('slot', len(leaves) - 1)
        if r < 0.32:
            t = rng.choice(['i8', 'i16', 'i32', 'i64', 'u64', 'bool', 'u8'])
            leaves.append(leaf('sizeof(%s)' % cname(t), 'u64', sizeof(t)))
            return ('slot', len(leaves) - 1)
        if r < 0.40:
            nm, v = rng.choice([('EN_NEG', -5), ('EN_BIG', 2147483647), ('EN_ONE', 1), ('EN_Z', 0)])
            leaves.append(leaf(nm, 'i32', v))
            return ('slot', len(leaves) - 1)
        t = rng.choice(ALL)
        v = rng.choice(cint.boundary_values(t)) if rng.random() < 0.6 else convert(t, rng.randrange(-300, 300))
        leaves.append(leaf(lit_of(t, v), t, v))
        return ('slot', len(leaves) - 1)

    def tree(d):
        r = rng.random()
        if d <= 0 or r < 0.15:
            return mkleaf()
        if r < 0.30:
            return ('un', rng.choice(UNOPS), tree(d - 1))
        if r < 0.45:
            return ('cast', rng.choice(ALL), tree(d - 1))
        if r < 0.52:
            return ('cond', tree(d - 2), tree(d - 1), tree(d - 1))
        if r < 0.58:
            return (rng.choice(['land', 'lor']), tree(d - 1), tree(d - 1))
        op = rng.choice(BINOPS)
        b = tree(d - 1)
        if op in ('<<', '>>') and rng.random() < 0.85:
            k = rng.choice([7, 15, 31, 63])
            leaves.append(leaf(str(k), 'i32', k))
            b = ('bin', '&', b, ('slot', len(leaves) - 1))
        return ('bin', op, tree(d - 1), b)
    return tree(depth)


def subst(e, leaves, runtime):
    k = e[0]
    if k == 'slot':
        l = leaves[e[1]]
        if runtime:
            return leaf('v%d' % e[1], l[2], l[3])
        return l
    if k in ('un',):
        return (k, e[1], subst(e[2], leaves, runtime))
    if k == 'cast':
        return (k, e[1], subst(e[2], leaves, runtime))
    if k == 'bin':
        return (k, e[1], subst(e[2], leaves, runtime), subst(e[3], leaves, runtime))
    if k in ('land', 'lor', 'comma'):
        return (k, subst(e[1], leaves, runtime), subst(e[2], leaves, runtime))
    if k == 'cond':
        return (k, subst(e[1], leaves, runtime), subst(e[2], leaves, runtime), subst(e[3], leaves, runtime))
    raise ValueError(e)


class Case:
    """One constant expression with all the positions it is placed in."""
    def __init__(self, idx, e, leaves, rng):
        self.idx = idx
        self.ce = subst(e, leaves, False)
        self.re = subst(e, leaves, True)
        self.leaves = leaves
        self.t, self.v = ev(self.ce)
        self.txt = render(self.ce)
        self.rtxt = render(self.re)
        self.rng_t = rng.choice(ALL)
        self.top = top_op(e)

    def key(self, pos):
        return 'C07|%s|%s|%s' % (pos, self.top, self.t)

    def globals_(self):
        i = self.idx
        g = []
        tt = self.rng_t
        g.append('static %s sg%d = %s;' % (cname(tt), i, self.txt))                       # static initializer, converting
        g.append('static %s sf%d = %s;' % (cname(self.t), i, self.txt))                   # static initializer, own type
        if cint.inrange('i32', self.v):
            g.append('enum { EK%d = %s };' % (i, self.txt))
        g.append('struct BW%d { unsigned f : ((%s) & 31) + 1; };' % (i, self.txt))
        g.append('static int ad%d[8] = { [(%s) & 7] = 5 };' % (i, self.txt))
        g.append('struct AL%d { char a; _Alignas(1 << ((%s) & 3)) char b; };' % (i, self.txt))
        return '\n'.join(g)

    def body(self):
        i = self.idx
        b = []
        for k, l in enumerate(self.leaves):
            b.append('volatile %s v%d = %s;' % (cname(l[2]), k, l[1]))
        b.append('{ typeof(%s) r = %s; OUT(%d, &r, sizeof r); }' % (self.rtxt, self.rtxt, i))           # run time
        b.append('OUT(%d, &sf%d, sizeof sf%d);' % (i, i, i))                                             # static, own type
        b.append('OUT(%d, &sg%d, sizeof sg%d);' % (i, i, i))                                             # static, converting
        b.append('{ %s x = %s; OUT(%d, &x, sizeof x); }' % (cname(self.rng_t), self.rtxt, i))            # run time, converting
        b.append('OUTV(%d, sizeof(char[((%s) & 1023) + 1]));' % (i, self.txt))                           # array bound
        if cint.inrange('i64', self.v):
            b.append('{ volatile long c = %s; switch (c) { case %s: OUTV(%d, 1); break; default: OUTV(%d, 0); } }'
                     % (lit_of('i64', self.v), self.txt, i, i))                                          # case label: hit
            other = self.v + 1 if self.v < (1 << 63) - 1 else self.v - 1
            b.append('{ volatile long c = %s; switch (c) { case %s: OUTV(%d, 1); break; default: OUTV(%d, 0); } }'
                     % (lit_of('i64', other), self.txt, i, i))                                           # case label: miss
        if cint.inrange('i32', self.v):
            b.append('OUTV(%d, EK%d);' % (i, i))                                                          # enumerator
        b.append('{ struct BW%d s; s.f = ~0u; OUTV(%d, s.f); }' % (i, i))                                # bit-field width
        b.append('OUTV(%d, (long)&((struct AL%d *)0)->b);' % (i, i))                                      # _Alignas
        b.append('{ int k = -1; for (int j = 0; j < 8; j++) if (ad%d[j] == 5) k = j; OUTV(%d, k); }' % (i, i))  # designator
        return '{\n' + '\n'.join(b) + '\n}'

    def expect(self):
        i = self.idx
        hx = lambda t, v: '%d:%s' % (i, to_bytes(t, v).hex())
        e = [(hx(self.t, self.v), 'runtime'), (hx(self.t, self.v), 'static-init'),
             (hx(self.rng_t, convert(self.rng_t, self.v)), 'static-init-conv'), (hx(self.rng_t, convert(self.rng_t, self.v)), 'runtime-conv'),
             ('%d=%d' % (i, (self.v & 1023) + 1), 'array-bound')]
        if cint.inrange('i64', self.v):
            e += [('%d=1' % i, 'case-label'), ('%d=0' % i, 'case-label')]
        if cint.inrange('i32', self.v):
            e.append(('%d=%d' % (i, self.v), 'enumerator'))
        w = (self.v & 31) + 1
        e.append(('%d=%d' % (i, (1 << w) - 1), 'bitfield-width'))
        e.append(('%d=%d' % (i, max(1, 1 << (self.v & 3))), 'alignas'))
        e.append(('%d=%d' % (i, self.v & 7), 'designator'))
        return e


def top_op(e):
    k = e[0]
    if k == 'slot':
        return 'leaf'
    if k == 'bin':
        return e[1]
    if k == 'un':
        return 'u' + e[1]
    if k == 'cast':
        return 'cast:' + e[1]
    return {'land': '&&', 'lor': '||', 'cond': '?:', 'comma': ','}[k]


FP_PROG = r'''
#include "vrt.h"
%(statics)s
int main(void) {
%(body)s
return 0;
}
'''


def fp_cases(rng, n):
    """Floating constant expressions: static initializer vs run time on volatile operands (bit-exact)."""
    lits = ['0.1', '0.2', '0.3', '1.0', '3.0', '1e16', '2.9999', '1e-5', '16777216.0f', '1.0f', '0.1f', '3.0f', '1.5L', '0.1L', '1152921573326323713L', '0x1.000001000000001p0L', '16777217L', '0x1.00000000000008000001p0L',
            '3.0L', '1e308', '1e-308', '4.9e-324', '0x1p-1074', '123456789.125', '7', '-3', '2u', '9007199254740993L', '18446744073709551615UL']
    cases = []
    frac = ['0.5', '0.25f', '-0.5', '0.75L', '0.0', '-0.0', '(0.0/0.0)', '1e-30', '0.9999', '1.5', '-1.5f', '2.5L', '1e300', '0.1', '(1.0/0.0)']
    CONV = {'unsigned long': ['1e19', '9223372036854775808.0', '18446744073709549568.0', '1.8e19L', '0x1p63', '0x1.fffffffffffffp63', '1.5', '0.99', '9223372036854775807.0L', '4e18'],
            'long': ['-9.2e18', '9.2e18', '-0x1p63', '0x1.fffffffffffffp62', '-1.5', '2147483648.0', '-0.99L'],
            'unsigned': ['3e9', '4294967295.0', '2147483648.0f', '4294967295.5L', '0.5', '2147483647.5'],
            'int': ['-2147483648.0', '2147483647.0', '-2147483648.9', '2147483647.9L', '-1.9f', '1e9f'],
            'unsigned short': ['65535.9', '40000.0f', '32768.0L', '0.1'], 'short': ['-32768.5', '32767.9L', '300.0f'],
            'unsigned char': ['255.9', '128.0f', '200.5L'], 'signed char': ['-128.9', '127.5f', '-1.0L'], '_Bool': ['0.5', '1e-30f', '-0.0', '256.0', '0.0L', '1e300']}
    for i in range(n):
        x0 = rng.random()
        if x0 < 0.12:
            # floating constant converted to an integer type in a constant expression (in-range values up to the very edge of the target type)
            ty = rng.choice(list(CONV))
            A = rng.choice(CONV[ty])
            B = rng.choice(['1.0', '1.0L', '1.0f'])
            form = rng.choice(['(%(t)s)%(a)s', '(%(t)s)(%(a)s * %(b)s)', '%(a)s', '(%(t)s)(%(a)s / %(b)s)', '(%(t)s)+%(a)s'])
            cexpr = '(' + form % {'t': ty, 'a': A, 'b': B} + ')'
            rexpr = '(' + form % {'t': ty, 'a': 'f%d_0' % i, 'b': 'f%d_1' % i} + ')'
            cases.append((i, ty, cexpr, rexpr, [A, B]))
            continue
        if x0 < 0.2:
            # bit-field members of static objects are folded and packed by the compiler, those of automatic objects at run time
            bt = rng.choice(['unsigned long', 'long', 'unsigned', 'int', 'unsigned short', 'signed char', '_Bool'])
            mx = {'unsigned long': 64, 'long': 64, 'unsigned': 32, 'int': 32, 'unsigned short': 16, 'signed char': 8, '_Bool': 1}[bt]
            w1, w2 = rng.choice([1, 2, 7, 8, 9, 31, 32, 33, 40, 63, 64, mx]), rng.choice([1, 3, 8, 17, 32, 33, 47, 64, mx])
            w1, w2 = min(w1, mx), min(w2, mx)
            ty = 'struct { %s a : %d; %s b : %d; char c; }' % (bt, w1, bt, w2)
            A, B = (rng.choice(['-1', '1', '0x123456789abcdefL', '-2', '255', '0x80000000', '-0x7fffffffffffffffL', '5']) for _ in range(2))
            cases.append((i, ty, '{%s, %s, 3}' % (A, B), '{f%d_0, f%d_1, 3}' % (i, i), [A, B]))
            continue
        if rng.random() < 0.3:
            # operators with an integer result applied to floating operands (truth value / comparison of values below 1, NaN, infinities)
            A, B, C = (rng.choice(frac + lits[:8]) for _ in range(3))
            form = rng.choice(['!%(a)s', '!!%(a)s', '%(a)s && %(b)s', '%(a)s || %(b)s', '%(a)s ? %(b)s : %(c)s', '%(a)s < %(b)s', '%(a)s <= %(b)s', '%(a)s > %(b)s',
                               '%(a)s >= %(b)s', '%(a)s == %(b)s', '%(a)s != %(b)s', '(%(a)s < %(b)s) + (%(b)s != %(c)s) * 2', '(%(a)s == %(b)s) ? 3 : 4', '!%(a)s + !%(b)s',
                               '(%(a)s && %(b)s) || !%(c)s', '(%(a)s ? 1 : 2) + (%(b)s ? 10 : 20)', '%(a)s < %(b)s ? %(a)s : %(b)s'])
            ty = rng.choice(['int', 'long', '_Bool', 'unsigned char', 'double']) if '? %(b)s' in form or form.endswith(': %(b)s') else rng.choice(['int', 'long', '_Bool', 'unsigned char'])
            cexpr = '(' + form % {'a': A, 'b': B, 'c': C} + ')'
            rexpr = '(' + form % {'a': 'f%d_0' % i, 'b': 'f%d_1' % i, 'c': 'f%d_2' % i} + ')'
            cases.append((i, ty, cexpr, rexpr, [A, B, C]))
            continue
        k = rng.randrange(1, 4)
        ops = [rng.choice('+-*/') for _ in range(k)]
        ls = [rng.choice(lits) for _ in range(k + 1)]
        ty = rng.choice(['float', 'double', 'long double'])
        cexpr = ls[0]
        rexpr = 'f%d_0' % i
        for j, op in enumerate(ops):
            if op == '/' and ls[j + 1] in ('7', '-3', '2u') and rng.random() < 0.3:
                pass
            cexpr = '(%s %s %s)' % (cexpr, op, ls[j + 1])
            rexpr = '(%s %s f%d_%d)' % (rexpr, op, i, j + 1)
        if rng.random() < 0.3:
            c = rng.choice(['float', 'double', 'long double'])
            cexpr = '((%s)%s)' % (c, cexpr)
            rexpr = '((%s)%s)' % (c, rexpr)
        cases.append((i, ty, cexpr, rexpr, ls))
    return cases


def lit_type(l):
    if l.startswith('('):
        return 'double'
    if l.lstrip('-').startswith('0x') and 'p' not in l:
        return 'long'
    if l.endswith('f'):
        return 'float'
    if l.endswith('UL'):
        return 'unsigned long'
    if l.endswith('L') and ('.' in l or 'e' in l):
        return 'long double'
    if l.endswith('L'):
        return 'long'
    if l.endswith('u'):
        return 'unsigned'
    if '.' in l or 'e' in l or 'p' in l:
        return 'double'
    return 'int'


def run_tu(a):
    (idx, cc, work, src) = a
    p = os.path.join(work, 'tu%d.c' % idx)
    open(p, 'w').write(src)
    res = {k: core.build_and_run(k, cc, p, work, 'tu%d' % idx, timeout=60) for k in ('chibicc', 'gcc', 'clang')}
    os.unlink(p)
    return idx, res


DIV0 = [
    ('static-init', 'int x = %s;'), ('static-init-long', 'static long x = %s;'), ('array-bound', 'char a[%s];'),
    ('case-label', 'int f(int c) { switch (c) { case %s: return 1; } return 0; }'), ('enumerator', 'enum { A = %s };'),
    ('bitfield-width', 'struct S { int f : %s; };'), ('alignas', '_Alignas(%s) char c;'), ('designator', 'int a[4] = { [%s] = 1 };'),
    ('pp-if', '#if %s\n#endif\nint x;'), ('local-array', 'int f(void) { int a[%s]; return sizeof a; }'),
    ('sizeof-arg', 'int x = sizeof(char[%s]);'),
]
DIV0_EXPRS = ['1/0', '1%0', '5/(2-2)', '(1,2)/0' , '1u/0u', '1L%0L', '0/0', '7/(int)0.5', '1/(1/2)', '(-2147483647-1)/-1', '(-2147483647-1)%-1',
              '(-9223372036854775807L-1)/-1L', '(-9223372036854775807L-1)%-1L']


def div0_case(a):
    (i, cc, work, pos, tmpl, ex) = a
    src = tmpl % ex + '\n'
    p = os.path.join(work, 'd%d.c' % i)
    open(p, 'w').write(src)
    rc, o, e = core.sh(core.cc1_cmd(cc, p, p + '.s'), env=core.SAN_ENV, timeout=30, cwd=work)
    kind, det = core.classify_cc1(rc, o, e, {p: src.count('\n')})
    return pos, ex, src, kind, det, core.first_line(e.decode('utf-8', 'replace'))


def run(ctx):
    cc = ctx.build('plain')
    work = ctx.tmpdir('c07')
    rng = ctx.rng
    ctx.rule = ('case = one random constant expression (depth <= 5; literals of every C11 literal type, sizeof, enum constants, all '
                'operators, casts) placed in 11 positions + its run-time twin on volatile operands; observations compared with the Python '
                'model (= gcc = clang) and with each other; distinct = distinct (position, top-level operator, result type) cells + fp cases + div0 cells')
    ctx.assumptions += ['oracle: const == runtime inside the chibicc run, both == Python C11 model == gcc == clang',
                        'INT_MIN / -1 in a constant expression is undefined: accepted if it yields output or a located diagnostic']
    ncases = ctx.scale(2600, 40000)
    cases = []
    tries = 0
    while len(cases) < ncases and tries < ncases * 20:
        tries += 1
        leaves = []
        e = const_tree(rng, rng.randrange(1, 6), leaves)
        try:
            c = Case(len(cases), e, leaves, rng)
        except Undefined:
            continue
        cases.append(c)
    global ALLOBS
    ALLOBS = cases
    decl = '#include "vrt.h"\nenum { EN_NEG = -5, EN_BIG = 2147483647, EN_ONE = 1, EN_Z = 0 };\n'
    tus = []
    for k in range(0, len(cases), PER_TU // 10):
        chunk = cases[k:k + PER_TU // 10]
        src = decl + '\n'.join(c.globals_() for c in chunk) + '\nint main(void) {\n' + '\n'.join(c.body() for c in chunk) + '\nreturn 0;\n}\n'
        exp, owner = [], []
        for c in chunk:
            for (line, pos) in c.expect():
                exp.append(line)
                owner.append((c, pos))
        tus.append((src, exp, owner))
    results = core.pmap(run_tu, [(i, cc, work, t[0]) for i, t in enumerate(tus)])
    disagreements = 0
    for idx, res in results:
        src, exp, owner = tus[idx]
        outs = {}
        for kind in ('gcc', 'clang', 'chibicc'):
            r = res[kind]
            outs[kind] = r['out'].decode('utf-8', 'replace').split('\n')[:-1] if (r['stage'] == 'run' and r['rc'] == 0) else None
        if outs['gcc'] is None or outs['clang'] is None:
            # e.g. gcc does not accept an _Alignas operand whose *unevaluated* branch shifts by more than the width: such a unit is dropped
            bad = res['gcc'] if outs['gcc'] is None else res['clang']
            ctx.count('reference_rejected_tus')
            ctx.extra.setdefault('reference_reject_examples', []).append(bad['err'].decode('utf-8', 'replace')[-300:])
            if ctx.counts['reference_rejected_tus'] > max(2, 0.03 * len(results)):
                raise core.Inconclusive('reference compiler failed on %d generated TUs: %s' % (ctx.counts['reference_rejected_tus'], bad['err'].decode('utf-8', 'replace')[-400:]))
            continue
        x = res['chibicc']
        if outs['chibicc'] is None:
            msg = core.first_line(x['err'].decode('utf-8', 'replace'))
            ctx.violation('C07|tu|%s-fail' % x['stage'], 'chibicc failed (%s, rc=%s) on a TU accepted by gcc and clang: %s' % (x['stage'], x['rc'], msg),
                          files={'tu.c': src}, script='$CHIBICC -I$VERIF/rt -c -o tu.o tu.c || exit 1; exit 0')
            continue
        bad = set()
        for kind in ('gcc', 'clang'):
            if len(outs[kind]) != len(exp):
                raise core.Inconclusive('%s printed %d lines, expected %d' % (kind, len(outs[kind]), len(exp)))
            for ln, (a, b) in enumerate(zip(outs[kind], exp)):
                if a != b:
                    bad.add(ln)
        disagreements += len(bad)
        got = outs['chibicc']
        ctx.evaluations += len(exp)
        ctx.count('observations', len(exp))
        if len(got) != len(exp):
            ctx.violation('C07|tu|output-shape', 'chibicc build printed %d lines, expected %d' % (len(got), len(exp)), files={'tu.c': src})
            continue
        for ln, (a, b) in enumerate(zip(got, exp)):
            c, pos = owner[ln]
            ctx.saw(c.key(pos))
            if a != b and ln not in bad:
                rt_line = got[[i for i, (cc2, p2) in enumerate(owner) if cc2 is c and p2 == 'runtime'][0]]
                what = 'const≠c11' if pos != 'runtime' else 'runtime≠c11'
                if pos != 'runtime' and rt_line == exp[[i for i, (cc2, p2) in enumerate(owner) if cc2 is c and p2 == 'runtime'][0]]:
                    what = 'const≠runtime'
                ctx.violation(c.key(pos) + '|' + what, '%s in position %s: chibicc gives %s, expected %s (run-time twin gives %s)' % (c.txt, pos, a, b, rt_line),
                              files={'tu.c': src, 'expected.txt': '\n'.join(exp) + '\n'},
                              script='$CHIBICC -I$VERIF/rt -c -o tu.o tu.c && gcc -o tu.exe tu.o $RT && ./tu.exe > got.txt; cmp -s got.txt expected.txt && exit 0; diff got.txt expected.txt | head -5; exit 1')
    ctx.count('reference_disagreements', disagreements)
    if disagreements > 0.02 * max(1, ctx.counts.get('observations', 1)):
        ctx.note_inconclusive('model disagrees with gcc/clang on %d observations' % disagreements)
    for c in cases[:3]:
        ctx.sample({'expr': c.txt, 'model': [c.t, c.v], 'positions': [p for _, p in c.expect()]})

    # ---- floating constant expressions: static vs run time --------------------------------
    fps = fp_cases(rng, ctx.scale(1500, 20000))
    tus = []
    for k in range(0, len(fps), 250):
        chunk = fps[k:k + 250]
        st, body = [], []
        for (i, ty, cexpr, rexpr, ls) in chunk:
            st.append('static %s sc%d = %s;' % (ty, i, cexpr))
            for j, l in enumerate(ls):
                body.append('volatile %s f%d_%d = %s;' % (lit_type(l), i, j, l))
            n = 10 if ty == 'long double' else 'sizeof(%s)' % ty
            body.append('{ %s r = %s; OUT(%d, &sc%d, %s); OUT(%d, &r, %s); }' % (ty, rexpr, i, i, n, i, n))
        tus.append((FP_PROG % {'statics': '\n'.join(st), 'body': '\n'.join(body)}, chunk))
    results = core.pmap(run_tu, [(1000 + i, cc, work, t[0]) for i, t in enumerate(tus)])
    for idx, res in results:
        src, chunk = tus[idx - 1000]
        g, c, x = res['gcc'], res['clang'], res['chibicc']
        if g['stage'] != 'run' or c['stage'] != 'run':
            raise core.Inconclusive('reference failed on fp TU: ' + (g['err'] + c['err']).decode('utf-8', 'replace')[-300:])
        if x['stage'] != 'run' or x['rc'] != 0:
            ctx.violation('C07|fp|tu-%s-fail' % x['stage'], core.first_line(x['err'].decode('utf-8', 'replace')), files={'tu.c': src})
            continue
        lg, lc, lx = [r['out'].decode().split('\n')[:-1] for r in (g, c, x)]
        ctx.evaluations += len(lx)
        ctx.count('observations', len(lx))
        ctx.count('fp_observations', len(lx))
        for n in range(0, min(len(lx), len(lg), len(lc)) - 1, 2):
            (i, ty, cexpr, rexpr, ls) = chunk[n // 2]
            ctx.saw('fp|%s|%s' % (ty, re.sub(r'[0-9a-zA-Z_.]+', 'x', cexpr)[:40]))
            if lg[n] != lc[n] or lg[n + 1] != lc[n + 1] or lg[n] != lg[n + 1] or is_nan_line(lg[n]):
                ctx.count('fp_reference_ambiguous')
                continue
            if lx[n] != lx[n + 1]:
                ctx.violation('C07|static-init|fp|%s|const≠runtime' % ty.replace(' ', '-'), '%s: static %s, run time %s (gcc/clang %s)' % (cexpr, lx[n], lx[n + 1], lg[n]), files={'tu.c': src})
            elif lx[n] != lg[n]:
                ctx.violation('C07|static-init|fp|%s|const≠c11' % ty.replace(' ', '-'), '%s: chibicc %s, gcc=clang %s' % (cexpr, lx[n], lg[n]), files={'tu.c': src})

    # ---- undefined constant expressions must be diagnosed, not crashed on ------------------
    san = ctx.build('san')
    jobs = []
    for pos, tmpl in DIV0:
        for ex in DIV0_EXPRS:
            jobs.append((len(jobs), san, work, pos, tmpl, ex))
    for (pos, ex, src, kind, det, msg) in core.pmap(div0_case, jobs, chunksize=4):
        ctx.evaluations += 1
        ctx.count('div0_cases')
        ctx.saw('div0|%s|%s' % (pos, ex))
        zero = not ('-1' in ex and '2147483647' in ex or '9223372036854775807' in ex)
        if kind == 'diag' or (kind == 'ok' and not zero) or (kind == 'ok' and pos in ('local-array',)):
            continue
        if kind == 'ok' and zero:
            # accepting is allowed only where the expression is not required to be constant (VLA bound)
            ctx.violation('C07|%s|div0|accepted' % pos, 'division by zero in a constant expression accepted silently: ' + src.strip(), files={'input.c': src})
            continue
        ctx.violation('C07|%s|div0|%s' % (pos, kind), '%s -> %s %s %s' % (src.strip(), kind, det, msg), files={'input.c': src},
                      script='$CHIBICC -cc1 -cc1-input input.c -cc1-output /dev/null input.c; rc=$?; [ $rc -le 1 ] && exit 0; exit 1')


def is_nan_line(l):
    h = l.split(':')[1]
    if len(h) == 8:
        v = int.from_bytes(bytes.fromhex(h), 'little')
        return (v & 0x7f800000) == 0x7f800000 and (v & 0x7fffff)
    if len(h) == 16:
        v = int.from_bytes(bytes.fromhex(h), 'little')
        return (v & 0x7ff0000000000000) == 0x7ff0000000000000 and (v & 0xfffffffffffff)
    if len(h) == 20:
        v = int.from_bytes(bytes.fromhex(h), 'little')
        return ((v >> 64) & 0x7fff) == 0x7fff and (v & 0x7fffffffffffffff)
    return False
