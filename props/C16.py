"""C16 - atomic read-modify-write operations are indivisible.

chibicc-compiled workers (rt/c16/workers.c: op=, ++/--, atomic_fetch_*, atomic_exchange, explicit compare-exchange loops on
objects of width 1/2/4/8, signed and unsigned, in static / automatic / heap storage) are hammered by N threads pinned to
distinct CPUs behind a pthread barrier.  Every operation's result is logged per thread; the offline checker
(rt/c16/harness.c) decides: conservation of the final value, the exact multiset of returned values (no lost or duplicated
update), per-thread order, exactly-once hand-over of exchange tokens, the successful-CAS chain and that a failing CAS
observed a different value and wrote it back.  What was witnessed is measured: hand-offs between threads and failed CASes
(each one an interleaving inside the load..cmpxchg window); too few makes the run inconclusive.
Second monitor: the same binary at small size under valgrind helgrind (races on the atomic objects)."""
import os, re
from lib import core

LEVEL = 'exploration'
MIN_COUNTS = {'operations': (20000000, 300000000), 'handoffs': (100000, 2000000), 'cas_failures': (100000, 2000000)}


def run(ctx):
    cc = ctx.build('plain')
    work = ctx.tmpdir('c16')
    ctx.rule = ('phase = (operation family, width/signedness, storage class) run by N pinned threads x n operations with per-thread result logs; 16 families x 11 object variants x 3 storages; '
                'distinct = distinct phases executed; interleavings witnessed are counted as hand-offs (adjacent results owned by different threads) and failed CASes')
    ctx.assumptions += ['schedules are whatever the pinned cores produce; x86-TSO only', 'helgrind sees the emitted instructions; it is quiet on correct lock-prefixed code (verified) and reports races when the prefix is missing']
    src = os.path.join(core.VERIF, 'rt', 'c16', 'workers.c')
    wo = os.path.join(work, 'workers.o')
    rc, o, e = core.sh([cc, '-c', '-o', wo, src], timeout=120)
    if rc != 0:
        ctx.violation('C16|compile|workers', 'chibicc cannot compile the atomic workload: ' + core.first_line(e.decode('utf-8', 'replace')), script='$CHIBICC -c -o /dev/null $VERIF/rt/c16/workers.c && exit 0; exit 1')
        return
    ho = os.path.join(work, 'harness.o')
    rc, o, e = core.sh(['gcc', '-O1', '-g', '-c', '-o', ho, os.path.join(core.VERIF, 'rt', 'c16', 'harness.c')])
    if rc != 0:
        raise core.Inconclusive('harness does not compile: ' + e.decode()[-400:])
    exe = os.path.join(work, 'stress')
    rc, o, e = core.sh(['gcc', '-o', exe, ho, wo, '-lpthread'])
    if rc != 0:
        ctx.violation('C16|link|workers', 'link failed: ' + e.decode('utf-8', 'replace')[-300:])
        return
    script = ('$CHIBICC -c -o w.o $VERIF/rt/c16/workers.c && gcc -O1 -c -o h.o $VERIF/rt/c16/harness.c && gcc -o stress h.o w.o -lpthread && ./stress 8 50000 1 | grep -q VIOLATION && exit 1; exit 0')
    rounds = ctx.scale(2, 12)
    hung = False
    for r in range(rounds):
        threads = [8, 12, 2, 4, 16, 6, 3, 8, 12, 5, 7, 10][r % 12]
        n = ctx.scale(40000, 100000)
        rc, o, e = core.sh([exe, str(threads), str(n), str(ctx.seed + r)], timeout=150)
        out = o.decode('utf-8', 'replace')
        if rc == 'timeout':
            # a compare-exchange loop that never terminates (e.g. missing write-back): re-run once before reporting
            rc2, o2, e2 = core.sh([exe, str(threads), str(n // 10), str(ctx.seed + r)], timeout=90)
            if rc2 == 'timeout':
                last = [l for l in o2.decode('utf-8', 'replace').split('\n') if l.startswith('PHASE')]
                ctx.violation('C16|hang|after:%s' % (last[-1].split(' threads')[0] if last else 'start'), 'stress run does not terminate (retry loop never succeeds?)', script=script)
                hung = True
                break
            else:
                ctx.note_inconclusive('stress run timed out once')
            continue
        m = re.search(r'STATS phases=(\d+) ops=(\d+) handoffs=(\d+) cas_failures=(\d+) threads=(\d+) cpus=(\d+) violations=(\d+)', out)
        if not m:
            ctx.violation('C16|crash|stress', 'stress binary died: rc=%s %s' % (rc, out[-200:] + e.decode('utf-8', 'replace')[-200:]), script=script)
            continue
        ctx.count('phases', int(m.group(1)))
        ctx.count('operations', int(m.group(2)))
        ctx.count('handoffs', int(m.group(3)))
        ctx.count('cas_failures', int(m.group(4)))
        ctx.evaluations += int(m.group(2))
        for l in out.split('\n'):
            if l.startswith('PHASE'):
                ctx.saw(' '.join(l.split()[1:4]))
        lines = out.split('\n')
        for i, l in enumerate(lines):
            mm = re.match(r'VIOLATION (\S+) (\S+) (\S+) (\S+)', l)
            if mm:
                det = lines[i + 1].strip() if i + 1 < len(lines) and lines[i + 1].startswith('  detail') else ''
                ctx.violation('C16|%s|%s|%s|%s' % (mm.group(2), mm.group(3), mm.group(4), mm.group(1)), l + ' ' + det, script=script)
        if r == 0:
            ctx.sample({'phase_lines': [l for l in lines if l.startswith('PHASE')][:6], 'stats': m.group(0)})
    # helgrind on the emitted code
    hruns = 0 if hung else ctx.scale(1, 4)     # a workload that does not terminate natively will not terminate under helgrind either
    for r in range(hruns):
        rc, o, e = core.sh(['valgrind', '--tool=helgrind', '--error-exitcode=9', exe, str(3 + r), str(ctx.scale(300, 1500)), str(ctx.seed + r), 'small'], timeout=600)
        et = e.decode('utf-8', 'replace')
        ctx.evaluations += 1
        ctx.count('helgrind_runs')
        races = re.findall(r'Possible data race during (\w+) of size (\d+)', et)
        if rc == 'timeout':
            ctx.note_inconclusive('helgrind timed out')
        elif races:
            kinds = sorted(set('%s%s' % k for k in races))
            fn = re.search(r'at 0x[0-9A-F]+: (w_\w+)', et)
            ctx.violation('C16|helgrind|%s' % (fn.group(1) if fn else 'race'), '%d race reports (%s), first in %s' % (len(races), ','.join(kinds), fn.group(1) if fn else '?'),
                          script=script.replace('./stress 8 50000 1 | grep -q VIOLATION && exit 1; exit 0', 'valgrind --tool=helgrind --error-exitcode=9 ./stress 4 300 1 small > /dev/null 2>&1; [ $? -eq 9 ] && exit 1; exit 0'))
        elif rc not in (0,):
            ctx.note_inconclusive('helgrind run ended with status %s: %s' % (rc, et[-200:]))
        ctx.saw('helgrind:%d' % r)
