"""C18 - source positions survive preprocessing.

A fixed set of probe statements is placed in files transformed by random numbers of blank lines, comments (incl. multi-line),
backslash-newlines (between and inside tokens), CR/LF line ends, preceding includes of random length and macros whose
expansion carries the probe.  Monitors:
 (a) run time: printed __LINE__ / __FILE__ of every probe == gcc == clang (paths compared after normpath);
 (b) diagnostics: an undefined identifier planted in plain text / a macro body / a macro argument / a pasted or stringized
     position must be reported at the physical line (and file) where the generator planted it;
 (c) debug line records: every `.loc` in the -S output must name a physical line of that file that carries a token.
#line directives only in the dedicated probe of the open finding (test/line.c pins the off-by-one)."""
import os, re, random, shutil
from lib import core

LEVEL = 'exploration'
MIN_COUNTS = {'files': (2000, 30000), 'line_probes_compared': (9000, 150000), 'diagnostics_checked': (600, 8000), 'loc_records_checked': (50000, 300000)}


class FileGen:
    """Builds a source text line by line and knows the physical line of everything it emits."""
    def __init__(self, rng):
        self.rng = rng
        self.lines = []
        self.feats = set()

    def cur(self):
        return len(self.lines) + 1

    def emit(self, text):
        for l in text.split('\n'):
            self.lines.append(l)

    def noise(self):
        r = self.rng
        for _ in range(r.randrange(0, 4)):
            x = r.random()
            if getattr(self, 'no_block_comments', False):
                x = x * 0.5     # after a planted unclosed comment nothing may close it: blank lines and line comments only
            if x < 0.3:
                for _ in range(r.randrange(1, 5)):
                    self.lines.append('')
                self.feats.add('blank-lines')
            elif x < 0.5:
                self.lines.append('// line comment ' + 'x' * r.randrange(0, 20))
                self.feats.add('line-comment')
            elif x < 0.75:
                n = r.randrange(1, 5)
                self.emit('/* multi' + '\n comment line' * n + ' */')
                self.feats.add('multi-line-comment')
            elif x < 0.80:
                self.emit('/*/ slash right after the opening\n still inside */')
                self.feats.add('comment-slash-after-open')
            elif x < 0.85:
                self.emit('/* comment with \\\n splice */')
                self.feats.add('splice-in-comment')
            elif x < 0.89:
                self.emit('// comment continued \\\nby a splice')
                self.feats.add('splice-in-line-comment')
            elif x < 0.92:
                # universal character names shrink when they are converted: positions after them must still be right
                self.n_noise = getattr(self, 'n_noise', 0) + 1
                self.emit(r.choice(['static const char *ucn_%d_%d = "caf\\u00e9 \\U0001F600 \\u20ac";', 'static int caf\\u00e9_%d_%d;', '/* \\u00e9\\u00e9 */ static int \\u00e9\\u00e9\\u00e9_%d_%d;'])
                          % (id(self) % 9973, self.n_noise) + r.choice(['', ' \\\n', ' /* c */ \\\n\\\n']))
                self.feats.add('universal-character-names')
            else:
                # directly adjacent backslash-newlines: a continuation line that holds nothing but the backslash
                self.n_noise = getattr(self, 'n_noise', 0) + 1
                self.emit('#define NOISE_%d_%d (1 \\\n\\\n%s + 2)' % (id(self) % 9973, self.n_noise, '\\\n' * r.randrange(0, 3)))
                self.feats.add('adjacent-splices')

    def probe(self, k):
        """A probe statement; returns the physical line on which __LINE__ (its first character) stands."""
        r = self.rng
        x = r.random()
        if getattr(self, 'no_block_comments', False) and x >= 0.85:
            x = 0.1
        if x < 0.45:
            ln = self.cur()
            self.lines.append('  OUTV(%d, __LINE__); OUTS(%d, __FILE__);' % (k, k))
            return ln
        if x < 0.47:
            # __LINE__ / __FILE__ in the body of an object-like macro denote the place of use, not of the definition
            self.feats.add('probe-via-object-like-macro')
            self.lines.append('#define OBJPROBE_%d OUTV(%d, __LINE__); OUTS(%d, __FILE__);' % (k, k, k))
            for _ in range(r.randrange(0, 3)):
                self.lines.append('')
            ln = self.cur()
            self.lines.append('  OBJPROBE_%d' % k)
            return ln
        if x < 0.5:
            self.feats.add('adjacent-splices-between-tokens')
            self.lines.append('  OUTV(%d, \\' % k)
            for _ in range(r.randrange(1, 4)):
                self.lines.append('\\')
            ln = self.cur()
            self.lines.append('__LINE__); OUTS(%d, \\' % k)
            self.lines.append('\\')
            self.lines.append('    __FILE__);')
            return ln
        if x < 0.6:
            self.feats.add('splice-between-tokens')
            self.lines.append('  OUTV(%d, \\' % k)
            ln = self.cur()
            self.lines.append('    __LINE__); OUTS(%d, \\' % k)
            self.lines.append('    __FILE__);')
            return ln
        if x < 0.72:
            self.feats.add('splice-inside-token')
            ln = self.cur()
            self.lines.append('  OUTV(%d, __LI\\' % k)
            self.lines.append('NE__); OUTS(%d, __FI\\' % k)
            self.lines.append('LE__);')
            return ln
        if x < 0.80:
            self.feats.add('probe-via-macro')
            ln = self.cur()
            self.lines.append('  %s(%d);' % (r.choice(['PROBE', 'PROBE2', 'PROBE3']), k))
            return ln
        if x < 0.85:
            self.feats.add('multi-line-invocation')
            self.lines.append('  PROBE2(')
            ln = self.cur()
            self.lines.append('    %d' % k)
            self.lines.append('  );')
            return ln
        self.feats.add('comment-inside-statement')
        self.lines.append('  OUTV(%d, /* a' % k)
        self.lines.append('   comment */')
        ln = self.cur()
        self.lines.append('   __LINE__); OUTS(%d, __FILE__);' % k)
        return ln

    def text(self, crlf):
        t = '\n'.join(self.lines) + '\n'
        if crlf == 'crlf':
            t = t.replace('\n', '\r\n')
        elif crlf == 'cr':
            t = t.replace('\n', '\r')
        return t


def make_case(rng, root, idx, plant):
    """Writes main file + headers into root. Returns (main path, expected, feats, diag) where expected maps probe id -> (file, line)."""
    feats = set()
    expected = {}
    k = [idx * 1000]
    hdrs = []
    for h in range(rng.randrange(0, 3)):
        g = FileGen(rng)
        g.noise()
        g.lines.append('static void hdr%d_%d(void) {' % (idx, h))
        name = 'h%d_%d.h' % (idx, h)
        for _ in range(rng.randrange(1, 4)):
            g.noise()
            k[0] += 1
            expected[k[0]] = (name, g.probe(k[0]))
        g.lines.append('}')
        g.noise()
        crlf = rng.choice(['lf', 'lf', 'crlf'])
        open(os.path.join(root, name), 'w', newline='').write(g.text(crlf))
        feats |= g.feats
        if crlf != 'lf':
            feats.add('header-' + crlf)
        hdrs.append((name, h))
    g = FileGen(rng)
    g.lines.append('#include "vrt.h"')
    g.lines.append('#define PROBE(k) OUTV(k, __LINE__); OUTS(k, __FILE__)')
    g.lines.append('#define PROBE2(k) PROBE(k)')
    g.lines.append('#define PROBE3(k) PROBE2(k)')
    g.noise()
    for (name, h) in hdrs:
        g.lines.append('#include "%s"' % name)
        g.noise()
        feats.add('include-before-probes')
    diag = None
    if plant:
        where = rng.choice(['plain', 'macro-body', 'macro-arg', 'pasted', 'stringized-context', 'tokenizer-error-after-splice', 'tokenizer-error-after-splice', 'widened-literal'])
        g.noise()
        if where == 'plain':
            g.lines.append('static int planted(void) {')
            g.noise()
            ln = g.cur()
            g.lines.append('  return 1 + UNDEFINED_XYZ;')
            g.lines.append('}')
            diag = (where, {('main', ln)})
        elif where == 'tokenizer-error-after-splice':
            # an error found while tokenizing whose position is the first character after a backslash-newline
            kind = rng.choice(['unclosed-comment', 'unclosed-char', 'unclosed-comment-after-adjacent-splices'])
            g.lines.append('static int planted(void) {')
            g.lines.append('  return 1 + \\')
            if kind == 'unclosed-comment-after-adjacent-splices':
                g.lines.append('\\')
            ln = g.cur()
            g.lines.append("'a;" if kind == 'unclosed-char' else '/* this comment is never closed')
            g.no_block_comments = kind != 'unclosed-char'
            g.lines.append('}')
            diag = (where, {('main', ln)})
            feats.add('planted-kind:' + kind)
        elif where == 'widened-literal':
            # a narrow string literal re-encoded because its neighbour is wide: the new token must keep file and line of the original
            g.lines.append('static void planted(void) {')
            g.noise()
            ln = g.cur()
            g.lines.append('  %s = 1;' % rng.choice(['"ab" L"cd"', '"ab" u"cd"', '"x" "ab" U"cd"']))
            g.lines.append('}')
            diag = (where, {('main', ln)})
        elif where == 'macro-body':
            dl = g.cur()
            g.lines.append('#define BODY(x) ((x) + UNDEFINED_XYZ)')
            g.noise()
            g.lines.append('static int planted(void) {')
            ul = g.cur()
            g.lines.append('  return BODY(2);')
            g.lines.append('}')
            diag = (where, {('main', dl), ('main', ul)})
        elif where == 'macro-arg':
            g.lines.append('#define ARG(x) ((x) + 1)')
            g.noise()
            g.lines.append('static int planted(void) {')
            g.lines.append('  return ARG(')
            ul = g.cur()
            g.lines.append('      UNDEFINED_XYZ);')
            g.lines.append('}')
            diag = (where, {('main', ul), ('main', ul - 1)})
        elif where == 'pasted':
            dl = g.cur()
            g.lines.append('#define GLUE(a, b) a ## b')
            g.noise()
            g.lines.append('static int planted(void) {')
            ul = g.cur()
            g.lines.append('  return GLUE(UNDEFINED_, XYZ);')
            g.lines.append('}')
            diag = (where, {('main', dl), ('main', ul)})
        else:
            dl = g.cur()
            g.lines.append('#define STR(a) #a UNDEFINED_XYZ')
            g.noise()
            g.lines.append('static const char *planted(void) {')
            ul = g.cur()
            g.lines.append('  return STR(q);')
            g.lines.append('}')
            diag = (where, {('main', dl), ('main', ul)})
        feats.add('planted:' + where)
    g.noise()
    g.lines.append('int main(void) {')
    for (name, h) in hdrs:
        g.lines.append('  hdr%d_%d();' % (idx, h))
    for _ in range(rng.randrange(3, 9)):
        g.noise()
        k[0] += 1
        expected[k[0]] = ('main', g.probe(k[0]))
    g.noise()
    g.lines.append('  return 0;')
    g.lines.append('}')
    crlf = rng.choice(['lf', 'lf', 'lf', 'crlf', 'cr'])
    if crlf != 'lf':
        feats.add('main-' + crlf)
    main = os.path.join(root, 'm%d.c' % idx)
    open(main, 'w', newline='').write(g.text(crlf))
    feats |= g.feats
    return main, expected, feats, diag, g.text('lf')


def token_lines(text):
    """Physical lines (1-based) of a source text that carry at least one token character."""
    t = text.replace('\r\n', '\n').replace('\r', '\n')
    # blank out comments, keep newlines
    out = []
    i, n = 0, len(t)
    state = None
    while i < n:
        c = t[i]
        if state is None:
            if t.startswith('/*', i):
                state = 'bc'
                out.append('  ')
                i += 2
                continue
            if t.startswith('//', i):
                state = 'lc'
                out.append('  ')
                i += 2
                continue
            if c == '"' or c == "'":
                q = c
                out.append(c)
                i += 1
                while i < n and t[i] != q and t[i] != '\n':
                    out.append('x' if t[i] != '\\' else 'x')
                    if t[i] == '\\' and i + 1 < n and t[i + 1] != '\n':
                        out.append('x')
                        i += 1
                    i += 1
                continue
            out.append(c)
        elif state == 'bc':
            if t.startswith('*/', i):
                state = None
                out.append('  ')
                i += 2
                continue
            out.append('\n' if c == '\n' else ' ')
        elif state == 'lc':
            if c == '\n' and not (i > 0 and t[i - 1] == '\\'):
                state = None
            out.append('\n' if c == '\n' else ' ')
        i += 1
    res = set()
    for ln, line in enumerate(''.join(out).split('\n'), 1):
        s = line.strip()
        if s and s != '\\':
            res.add(ln)
    return res


def run_case(a):
    (idx, cc, work, seed, plant) = a
    rng = random.Random(seed)
    root = os.path.join(work, 'f%d' % idx)
    os.makedirs(root)
    main, expected, feats, diag, text = make_case(rng, root, idx, plant)
    res = {'feats': feats, 'expected': expected, 'diag': diag}
    inc = ['-I' + os.path.join(core.VERIF, 'rt')]
    if plant:
        rc, o, e = core.sh(core.cc1_cmd(cc, main, os.path.join(root, 'out.s'), inc), timeout=30)
        res['diag_out'] = (rc, e.decode('utf-8', 'replace'))
    else:
        r = {k: core.build_and_run(k, cc, main, root, 'm', timeout=30) for k in ('gcc', 'clang', 'chibicc')}
        res['runs'] = {k: (v['stage'], v['rc'], v['out'].decode('utf-8', 'replace'), v['err'].decode('utf-8', 'replace')[-300:]) for k, v in r.items()}
        rc, o, e = core.sh([cc, '-S', '-o', os.path.join(root, 'm.s'), main] + inc, timeout=30)
        locs = []
        if rc == 0:
            files = {}
            for ln in open(os.path.join(root, 'm.s'), errors='replace'):
                m = re.match(r'\s*\.file (\d+) "(.*)"', ln)
                if m:
                    files[int(m.group(1))] = m.group(2)
                m = re.match(r'\s*\.loc (\d+) (\d+)', ln)
                if m:
                    locs.append((int(m.group(1)), int(m.group(2))))
            bad = []
            tl_cache = {}
            for (fn, line) in set(locs):
                path = files.get(fn)
                if path is None:
                    bad.append(('no-file', fn, line))
                    continue
                if path not in tl_cache:
                    try:
                        tl_cache[path] = token_lines(open(path, newline='').read())
                    except OSError:
                        tl_cache[path] = None
                if tl_cache[path] is not None and line not in tl_cache[path]:
                    bad.append((os.path.basename(path), fn, line))
            res['locs'] = (len(locs), bad)
    res['main_text'] = text
    res['files'] = {f: open(os.path.join(root, f), newline='').read() for f in os.listdir(root) if f.endswith(('.c', '.h'))}
    shutil.rmtree(root, ignore_errors=True)
    return idx, res


def parse_probes(out, root_names):
    got = {}
    for m in re.finditer(r'^(\d+)=(-?\d+)$', out, re.M):
        got.setdefault(int(m.group(1)), [None, None])[0] = int(m.group(2))
    for m in re.finditer(r'^(\d+)"(.*)"$', out, re.M):
        got.setdefault(int(m.group(1)), [None, None])[1] = os.path.basename(os.path.normpath(m.group(2)))
    return got


def run(ctx):
    cc = ctx.build('plain')
    work = ctx.tmpdir('c18')
    ctx.rule = ('file = main file + 0..2 headers with probes separated by random blank lines / comments / splices (between and inside tokens) / CR-LF; '
                'every probe prints __LINE__ and __FILE__; one third of the files carry a planted undefined identifier instead; distinct = distinct transformation feature sets')
    ctx.assumptions += ['oracle for __LINE__/__FILE__: generator line table == gcc == clang (probes on which they disagree are discarded)',
                        'a diagnostic for a token inside a macro may name the definition line or the invocation line', '#line directives only in the dedicated probe']
    n = ctx.scale(2400, 40000)
    jobs = [(i, cc, work, ctx.seed * 104729 + i, i % 3 == 2) for i in range(n)]
    for idx, res in core.pmap(run_case, jobs, chunksize=8):
        ctx.evaluations += 1
        ctx.count('files')
        feats = res['feats']
        fkey = '+'.join(sorted(feats))
        ctx.saw(fkey)
        files = res['files']
        name = 'm%d.c' % idx
        if res['diag'] is not None:
            where, allowed = res['diag']
            rc, et = res['diag_out']
            ctx.count('diagnostics_checked')
            m = None
            for ln in et.split('\n'):
                mm = core.DIAG_RE.match(ln)
                if mm and 'extra token' not in et.split('\n')[et.split('\n').index(ln) + 1 if et.split('\n').index(ln) + 1 < len(et.split('\n')) else 0]:
                    m = mm
                    break
            script = '$CHIBICC -I$VERIF/rt -S -o /dev/null %s; echo "expected one of %s"; exit 1' % (name, sorted(allowed))
            if rc != 1 or not m:
                ctx.violation('C18|diag|%s|no-located-diagnostic' % where, 'planted undefined identifier (%s): exit %s, stderr %s' % (where, rc, et[:200]), files=files, script=script)
                continue
            got = ('main' if os.path.basename(m.group(1)) == name else os.path.basename(m.group(1)), int(m.group(2)))
            if got not in allowed:
                d = min(abs(got[1] - l) for (f, l) in allowed)
                ctx.violation('C18|diag|%s|%s' % (where, 'wrong-file' if got[0] != 'main' else 'line-off'), 'planted at %s, diagnostic names %s:%d (transformations: %s)' % (sorted(allowed), got[0], got[1], fkey), files=files, script=script)
            continue
        runs = res['runs']
        g, c, x = runs['gcc'], runs['clang'], runs['chibicc']
        script = '$CHIBICC -I$VERIF/rt -c -o m.o %s && gcc -o m m.o $RT && ./m > got.txt; gcc -w -I$VERIF/rt -o r %s $RT && ./r > ref.txt; cmp -s got.txt ref.txt && exit 0; diff got.txt ref.txt | head -4; exit 1' % (name, name)
        if g[0] != 'run' or c[0] != 'run':
            ctx.count('reference_failed')
            ctx.sample({'reference_failed': g[3] + c[3]})
            continue
        if x[0] != 'run' or x[1] != 0:
            ctx.violation('C18|LINE|%s|%s-fail' % (fkey, x[0]), 'chibicc failed on a file accepted by gcc and clang: ' + core.first_line(x[3]), files=files, script=script)
            continue
        pg, pc, px = parse_probes(g[2], None), parse_probes(c[2], None), parse_probes(x[2], None)
        for k, (fname, line) in res['expected'].items():
            eg, ec, ex = pg.get(k), pc.get(k), px.get(k)
            if eg != ec or eg is None:
                ctx.count('probes_reference_ambiguous')
                continue
            if eg[0] != line:
                ctx.count('probes_generator_table_disagrees')
                continue
            ctx.count('line_probes_compared')
            if ex is None:
                ctx.violation('C18|LINE|%s|probe-missing' % fkey, 'probe %d not executed' % k, files=files, script=script)
            elif ex[0] != eg[0]:
                ctx.violation('C18|LINE|%s|%+d' % (fkey, ex[0] - eg[0]), 'probe %d in %s: __LINE__ is %d, physical line (= gcc = clang) %d' % (k, fname, ex[0], eg[0]), files=files, script=script)
            elif ex[1] != eg[1]:
                ctx.violation('C18|FILE|%s' % fkey, 'probe %d: __FILE__ is %s, expected %s' % (k, ex[1], eg[1]), files=files, script=script)
        if 'locs' in res:
            nloc, bad = res['locs']
            ctx.count('loc_records_checked', nloc)
            if bad:
                ctx.violation('C18|loc|%s' % fkey, '.loc records name lines without a token: %s' % bad[:5], files=files, script='$CHIBICC -I$VERIF/rt -S -o- %s | grep -n "\\.loc" | head; exit 1' % name)
    # dedicated probe of the open finding: #line.  chibicc numbers the line after `#line N` N+1 (pinned by test/line.c); the
    # probe records the delta of every __LINE__ after each directive form, so only a uniform +1 is the known finding
    forms = [('plain', '#line 500 "foo.c"'), ('gnu-marker', '# 800 "bar.c"'), ('no-file', '#line 1200'), ('macro-operand', '#line BASE'), ('macro-operands', '#line BASE2 FNAME'),
             ('continued', '#line \\\n 3000'), ('macro-operand-continued', '#line \\\n BASE'), ('after-comment', '#line /* c */ 4000 /* d */'), ('big', '#line 2147483000')]
    rng = random.Random(ctx.seed + 18)
    rng.shuffle(forms)
    open(os.path.join(work, 'lp_hdr.h'), 'w').write('\n\n#define HDR_HERE() __LINE__\n#define HDR_HERE2 HDR_HERE()\n')
    lines = ['#include "vrt.h"', '#include "lp_hdr.h"', '#define BASE 2000', '#define BASE2 \\', '  2500', '#define FNAME "baz.c"', '', 'int main(void) {']
    k = 0
    owners = []
    for (fname, d) in forms:
        lines.append(d)
        # (re)defined after the directive: a macro body keeps the numbering that was in effect where it was written (see the open finding below)
        lines += ['#undef GLUE', '#undef STR', '#undef HERE', '#define GLUE(a, b) a ## b', '#define STR(x) #x', '#define HERE __LINE__']
        for j in range(rng.randrange(1, 4)):
            k += 1
            lines.append('  OUTV(%d, __LINE__);%s' % (k, ' OUTS(%d, __FILE__);' % k if j == 0 else ''))
            owners.append(fname)
            if j == 0:
                owners.append(fname + ':file')
                # statements made of pasted / stringized / macro-produced tokens: their debug line records must carry the presumed line too
                lines.append('  GLUE(OU, TV)(%d, HERE); GLUE(OUT, S)(%d, STR(x));' % (k + 500, k + 500))
                owners += [fname, fname + ':str']
                # __LINE__ in a macro that was defined in another file: the numbering of the place of use applies
                lines.append('  OUTV(%d, HDR_HERE()); OUTV(%d, HDR_HERE2);' % (k + 700, k + 800))
                owners += [fname, fname]
        if rng.random() < 0.5:
            lines.append('')
    lines += ['  return 0;', '}']
    src = '\n'.join(lines) + '\n'
    p = os.path.join(work, 'lineprobe.c')
    open(p, 'w').write(src)
    rg = core.build_and_run('gcc', cc, p, work, 'lp')
    rc2 = core.build_and_run('clang', cc, p, work, 'lp')
    rx = core.build_and_run('chibicc', cc, p, work, 'lp')
    ctx.evaluations += 1
    ctx.saw('probe:line-directive')
    pf = {'lineprobe.c': src}
    pscript = '$CHIBICC -I$VERIF/rt -c -o l.o lineprobe.c && gcc -o l l.o $RT && ./l > got.txt; gcc -w -I$VERIF/rt -o r lineprobe.c $RT && ./r > ref.txt; diff got.txt ref.txt; exit 1'
    if rg['stage'] != 'run' or rc2['stage'] != 'run' or rg['out'] != rc2['out']:
        ctx.note_inconclusive('#line probe: references fail or disagree')
    elif rx['stage'] != 'run':
        ctx.violation('C18|LINE|line-directive|fail', 'probe failed: ' + rx['err'].decode('utf-8', 'replace')[:200], files=pf)
    else:
        lg, lx = rg['out'].decode().split('\n')[:-1], rx['out'].decode().split('\n')[:-1]
        if len(lg) != len(lx) or len(lg) != len(owners):
            ctx.violation('C18|LINE|line-directive|output-shape', 'probe printed %d lines, reference %d' % (len(lx), len(lg)), files=pf, script=pscript)
        else:
            for o, a1, b1 in zip(owners, lx, lg):
                ctx.count('line_directive_probes')
                if o.endswith(':str'):
                    continue
                if o.endswith(':file'):
                    if a1 != b1:
                        ctx.violation('C18|FILE|line-directive|%s' % o[:-5], '__FILE__ after #line (%s): chibicc %s, gcc = clang %s' % (o, a1, b1), files=pf, script=pscript)
                    continue
                dlt = int(a1.split('=')[1]) - int(b1.split('=')[1])
                if dlt == 1:
                    ctx.violation('C18|LINE|line-directive|+1', 'after `#line N` (%s): chibicc %s, gcc = clang %s' % (o, a1, b1), files=pf, script=pscript)
                elif dlt != 0:
                    ctx.violation('C18|LINE|line-directive|%s|%+d' % (o, dlt), 'after `#line N` (%s): chibicc %s, gcc = clang %s' % (o, a1, b1), files=pf, script=pscript)
    # debug line records of the probe: everything in main() comes after the first #line (all operands >= 500), so a record below 500 is a
    # physical line number leaking through (tokens synthesized by ## / # / dynamic macros have their own buffers)
    rs = core.sh([cc, '-I' + os.path.join(core.VERIF, 'rt'), '-S', '-o', '-', p], timeout=60)
    if rs[0] == 0:
        inmain = False
        lows = []
        nrec = 0
        for ln in rs[1].decode('utf-8', 'replace').split('\n'):
            if ln.startswith('main:'):
                inmain = True
            m2 = re.match(r'\s*\.loc \d+ (\d+)', ln)
            if inmain and m2:
                nrec += 1
                if int(m2.group(1)) < 500:
                    lows.append(int(m2.group(1)))
        ctx.count('line_directive_loc_records', nrec)
        if lows:
            ctx.violation('C18|loc|line-directive|physical-line-leak', '.loc records after #line name physical lines %s' % sorted(set(lows))[:8], files=pf,
                          script='$CHIBICC -I$VERIF/rt -S -o- lineprobe.c | sed -n "/^main:/,\$p" | grep "\.loc" | awk \'$3 < 500 { bad = 1 } END { exit bad }\'')
    # a narrow literal re-encoded next to a wide one, in a file without any other synthesized token after its last #include
    wl = os.path.join(work, 'wl')
    os.makedirs(wl, exist_ok=True)
    open(os.path.join(wl, 'wl_hdr.h'), 'w').write('\n' * 9 + 'extern int wl_declared_in_header;\n' + '\n' * 5)
    for (tag, stmt) in [('diag', '"ab" L"cd" = 1;'), ('diag-u', '"x" "ab" u"cd" = 1;'), ('loc', 'wlp = "ab" L"cd";'), ('loc-U', 'wlp = "ab" "q" U"cd";')]:
        nblank = rng.randrange(1, 6)
        srcw = '#include "wl_hdr.h"\n' + '\n' * nblank + 'const void *wlp;\nvoid wlf(void) {\n  %s\n}\n' % stmt
        want = nblank + 4
        pw = os.path.join(wl, 'wl_%s.c' % tag)
        open(pw, 'w').write(srcw)
        rw = core.sh([cc, '-S', '-o', '-', pw], cwd=wl, timeout=60)
        ctx.evaluations += 1
        ctx.saw('probe:widened-literal-after-include:' + tag)
        if tag.startswith('diag'):
            ctx.count('diagnostics_checked')
            m4 = re.match(r'(.*?):(\d+): ', rw[2].decode('utf-8', 'replace'))
            if rw[0] == 0 or not m4 or os.path.basename(m4.group(1)) != 'wl_%s.c' % tag or int(m4.group(2)) != want:
                ctx.violation('C18|diag|widened-literal-after-include|%s' % ('wrong-file' if m4 and os.path.basename(m4.group(1)) != 'wl_%s.c' % tag else 'line-off'),
                              'error on a re-encoded string literal at wl_%s.c:%d reported as: %s' % (tag, want, core.first_line(rw[2].decode('utf-8', 'replace'))), files={'wl.c': srcw, 'wl_hdr.h': open(os.path.join(wl, 'wl_hdr.h')).read()})
        elif rw[0] == 0:
            recs = re.findall(r'\.loc (\d+) (\d+)', rw[1].decode('utf-8', 'replace').split('\nwlf:\n')[-1])
            ctx.count('loc_records_checked', len(recs))
            bad = [r for r in recs if r[0] != '1' or not (want - 1 <= int(r[1]) <= want + 1)]
            if bad:
                ctx.violation('C18|loc|widened-literal-after-include', '.loc records of `%s` on line %d of file 1: %s' % (stmt, want, bad[:4]), files={'wl.c': srcw, 'wl_hdr.h': open(os.path.join(wl, 'wl_hdr.h')).read()})
    # diagnostics after a #line directive: every phase that can report an error names the physical file and the physical line it quotes
    dl = os.path.join(work, 'dline')
    os.makedirs(dl, exist_ok=True)
    open(os.path.join(dl, 'dl_hdr.h'), 'w').write('\n#line 90 "hdr_generated.y"\n\nextern int dl_hdr_decl;\n')
    plants = [('preprocess', '#error planted'), ('preprocess-directive', '#include "no/such/file.h"'), ('tokenize', 'int pl = 0x;'), ('tokenize-char', "int pl = '';"),
              ('parse', 'int pl(void) { return undeclared_name; }'), ('parse-syntax', 'int pl(void) { return 1 +; }'), ('codegen', 'void pl(void) { 1 = 2; }'),
              ('macro-arg', '#define ID(x) x\nint pl(void) { return ID(undeclared_name); }'), ('after-header-with-line', '#include "dl_hdr.h"\nint pl(void) { return undeclared_name; }')]
    for (fname, d) in forms + [('none', '')]:
        for (phase, text) in plants:
            nb = rng.randrange(0, 5)
            pre = 'int before_directive;\n' * rng.randrange(1, 4) + (d + '\n' if d else '') + '\n' * nb
            body = '#define BASE 2000\n#define BASE2 \\\n  2500\n#define FNAME "baz.c"\n' + pre + text + '\n'
            want = body.count('\n')          # the planted construct ends on the last line
            pd = os.path.join(dl, 'dl_%s_%s.c' % (fname, phase))
            open(pd, 'w').write(body)
            rd = core.sh([cc, '-S', '-o', '/dev/null', pd], cwd=dl, timeout=60)
            et = rd[2].decode('utf-8', 'replace')
            ctx.evaluations += 1
            ctx.count('diagnostics_checked')
            ctx.count('line_directive_diagnostics')
            ctx.saw('diag-after-line-directive:%s:%s' % (fname, phase))
            m5 = re.match(r'(.*?):(\d+): ', et)
            fl = {'dl.c': body, 'dl_hdr.h': open(os.path.join(dl, 'dl_hdr.h')).read()}
            sc5 = '$CHIBICC -S -o /dev/null dl.c 2>&1 | head -1 | grep -q "^dl.c:%d: " && exit 0; exit 1' % want
            if rd[0] == 0 or not m5:
                ctx.violation('C18|diag|after-line-directive|%s|no-located-diagnostic' % phase, 'form %s: exit %s, stderr %s' % (fname, rd[0], et[:160]), files=fl, script=sc5)
            elif os.path.basename(m5.group(1)) != os.path.basename(pd):
                ctx.violation('C18|diag|after-line-directive|%s|wrong-file' % phase, 'form %s: error planted in %s:%d reported as %s' % (fname, os.path.basename(pd), want, core.first_line(et)), files=fl, script=sc5)
            elif int(m5.group(2)) != want:
                ctx.violation('C18|diag|after-line-directive|%s|line-off' % phase, 'form %s: error planted in %s:%d reported as %s' % (fname, os.path.basename(pd), want, core.first_line(et)), files=fl, script=sc5)
            os.unlink(pd)
    # code on the very first physical line of a file and of a header: it needs a line record like any other line
    open(os.path.join(dl, 'one.h'), 'w').write('static inline int one_h(int x) { return x + 1; }\n')
    for (tag, srcf) in [('first-line-of-main-file', 'int first(int x) { return x * 2; }\nint second(int x) {\n  return x + 3;\n}\n'),
                        ('first-line-of-header', '\n#include "one.h"\nint user(int x) { return one_h(x); }\n')]:
        pf1 = os.path.join(dl, 'fl_%s.c' % tag)
        open(pf1, 'w').write(srcf)
        r1 = core.sh([cc, '-S', '-o', '-', pf1], cwd=dl, timeout=60)
        ctx.evaluations += 1
        ctx.saw('loc:' + tag)
        if r1[0] != 0:
            ctx.violation('C18|loc|%s|rejected' % tag, core.first_line(r1[2].decode('utf-8', 'replace')), files={'fl.c': srcf})
            continue
        asm = r1[1].decode('utf-8', 'replace')
        fn = 'one_h' if 'header' in tag else 'first'
        fno = '2' if 'header' in tag else '1'
        seg = asm.split('\n%s:\n' % fn)[-1].split('.L.return.%s:' % fn)[0]
        recs = re.findall(r'\.loc (\d+) (\d+)', seg)
        ctx.count('loc_records_checked', len(recs))
        if (fno, '1') not in recs:
            ctx.violation('C18|loc|%s|no-record-for-line-1' % tag, 'the body of %s() stands on line 1 of file %s but its code has the line records %s' % (fn, fno, sorted(set(recs))[:6]), files={'fl.c': srcf, 'one.h': open(os.path.join(dl, 'one.h')).read()},
                          script='$CHIBICC -S -o- fl.c | grep -q "\\.loc %s 1$" && exit 0; exit 1' % fno)
        os.unlink(pf1)
    # open finding: a macro defined before a #line directive and used after it - its body tokens are numbered "definition line + current delta"
    src2 = '#define STR(x) #x\nvoid OUTS(long, const char *);\nint main(void) {\n\n\n#line 700\n  OUTS(2, STR(b));\n  return 0;\n}\n'
    p2 = os.path.join(work, 'lineprobe2.c')
    open(p2, 'w').write(src2)
    rs2 = core.sh([cc, '-S', '-o', '-', p2], timeout=60)
    if rs2[0] == 0:
        locs = sorted({int(m3.group(1)) for m3 in re.finditer(r'\.loc \d+ (\d+)', rs2[1].decode('utf-8', 'replace').split('\nmain:\n')[-1])})
        ctx.count('line_directive_loc_records', len(locs))
        for v in locs:
            if v in (1, 3, 700, 701, 702, 703):      # physical line of the definition / of main, or presumed lines of the statements (N or the known N+1)
                continue
            if v == 1 + (701 - 7) or v == 1 + (700 - 7):
                ctx.violation('C18|loc|macro-defined-before-line-directive|definition-line-plus-delta', '.loc %d for a token of `#define STR(x) #x` (line 1) used after `#line 700`' % v, files={'lineprobe2.c': src2})
            else:
                ctx.violation('C18|loc|macro-defined-before-line-directive|%d' % v, '.loc %d is neither a physical nor a presumed line of the probe' % v, files={'lineprobe2.c': src2})
    if ctx.counts.get('reference_failed', 0) > 0.02 * n:
        ctx.note_inconclusive('%d generated files were rejected by a reference compiler' % ctx.counts['reference_failed'])
    if ctx.counts.get('probes_generator_table_disagrees', 0) > 0.01 * max(1, ctx.counts.get('line_probes_compared', 1)):
        ctx.note_inconclusive('the generator line table disagrees with gcc = clang on %d probes' % ctx.counts['probes_generator_table_disagrees'])
