"""C02 - floating-point arithmetic and conversions are bit-exact.

Operands come from run-time tables of bit patterns (gcc-compiled companion).  Grid: {+ - * / == != < <= > >= unary- ! && ?: if}
x {float,double,long double} (and mixed pairs, incl. integer operands) x boundary value pairs; all 12x12 conversions
(11 arithmetic types + _Bool) x value classes in cast / assignment / argument / return / variadic contexts; floating
literals.  Oracle: gcc == clang on the raw object representation (4/8/10 significant bytes); all NaNs are one class.
Domain monitor: exact Fraction range test for fp->int (out of range is undefined: not generated).  The chibicc build
carries the statement probes, so a conversion that leaves the x87 control word changed is reported as well."""
import os, re, struct, random
from fractions import Fraction
from lib import core, cint

LEVEL = 'exploration'
MIN_COUNTS = {'observations': (20000, 250000)}
PER_TU = 900
FT = {'f32': ('float', 4), 'f64': ('double', 8), 'f80': ('long double', 10)}
ITYPES = cint.ALL
ALLT = ITYPES + ['f32', 'f64', 'f80']


def cname(t):
    return FT[t][0] if t in FT else cint.cname(t)


def nbytes(t):
    return FT[t][1] if t in FT else cint.sizeof(t)


def f32_bits(x):
    return struct.unpack('<I', struct.pack('<f', x))[0]


def f64_bits(x):
    return struct.unpack('<Q', struct.pack('<d', x))[0]


def decode(t, b):
    """bit pattern -> Fraction | 'inf' | '-inf' | 'nan'"""
    if t == 'f32':
        s, e, m = b >> 31, (b >> 23) & 0xff, b & 0x7fffff
        if e == 0xff:
            return 'nan' if m else ('-inf' if s else 'inf')
        v = Fraction(m, 1 << 23) * Fraction(2) ** -126 if e == 0 else (1 + Fraction(m, 1 << 23)) * Fraction(2) ** (e - 127)
    elif t == 'f64':
        s, e, m = b >> 63, (b >> 52) & 0x7ff, b & ((1 << 52) - 1)
        if e == 0x7ff:
            return 'nan' if m else ('-inf' if s else 'inf')
        v = Fraction(m, 1 << 52) * Fraction(2) ** -1022 if e == 0 else (1 + Fraction(m, 1 << 52)) * Fraction(2) ** (e - 1023)
    else:
        s, e, m = (b >> 79) & 1, (b >> 64) & 0x7fff, b & ((1 << 64) - 1)
        if e == 0x7fff:
            return 'nan' if (m & ((1 << 63) - 1)) else ('-inf' if s else 'inf')
        v = Fraction(m, 1 << 63) * Fraction(2) ** ((e if e else 1) - 16383)
    return -v if s else v


def f80_from(x):
    """exact 80-bit pattern of a Fraction that is representable (used for integers and simple dyadics)"""
    if x == 0:
        return 0
    s = 1 if x < 0 else 0
    x = abs(Fraction(x))
    e = 0
    while x >= 2:
        x /= 2
        e += 1
    while x < 1:
        x *= 2
        e -= 1
    m = x * (1 << 63)
    assert m.denominator == 1, 'not representable'
    return (s << 79) | ((e + 16383) << 64) | int(m)


def tables(rng):
    T = {}
    f32 = [0x00000000, 0x80000000, 0x00000001, 0x007fffff, 0x00800000, 0x3f800000, 0xbf800000, 0x3fc00000, 0x3f000000,
           0x4b7fffff, 0x4b800000, 0x4b800001, 0x4f000000, 0x4effffff, 0x4f800000, 0x4f7fffff, 0x5f000000, 0x5effffff, 0x5f800000, 0x5f7fffff,
           0xcf000000, 0xdf000000, 0x7f7fffff, 0x7f800000, 0xff800000, 0x7fc00000, 0x7fa00000, f32_bits(0.1), f32_bits(1 / 3), f32_bits(255.5),
           f32_bits(-128.75), f32_bits(65535.9), f32_bits(2.5), f32_bits(3.5), f32_bits(-0.5), f32_bits(127.99), f32_bits(32767.5), f32_bits(-32768.5)]
    f64 = [0, 1 << 63, 1, (1 << 52) - 1, 1 << 52, f64_bits(1.0), f64_bits(-1.0), f64_bits(1.5), f64_bits(0.5), f64_bits(2.0 ** 24), f64_bits(2.0 ** 24 + 1),
           f64_bits(2.0 ** 31), f64_bits(2.0 ** 31 - 1), f64_bits(2.0 ** 32), f64_bits(2.0 ** 32 - 1), f64_bits(2.0 ** 53), f64_bits(2.0 ** 53 - 1), f64_bits(2.0 ** 53 + 2),
           f64_bits(2.0 ** 63), f64_bits(2.0 ** 63 - 1024), f64_bits(2.0 ** 64), f64_bits(2.0 ** 64 - 2048), f64_bits(-2.0 ** 31), f64_bits(-2.0 ** 31 - 1), f64_bits(-2.0 ** 63),
           f64_bits(1.7976931348623157e308), 0x7ff0000000000000, 0xfff0000000000000, 0x7ff8000000000000, 0x7ff4000000000000, f64_bits(0.1), f64_bits(1 / 3),
           f64_bits(16777217.0), f64_bits(1e-320), f64_bits(3.4028235677973366e38), f64_bits(1e39), f64_bits(1.401298464324817e-45 / 2), f64_bits(255.5), f64_bits(-128.75),
           f64_bits(65535.9), f64_bits(2.5), f64_bits(3.5), f64_bits(4294967295.5), f64_bits(2147483647.5), f64_bits(-2147483648.5), f64_bits(0.99), f64_bits(-0.99)]
    f80 = [0, 1 << 79, 1, f80_from(1), f80_from(-1), f80_from(Fraction(3, 2)), f80_from(Fraction(1, 2)), f80_from(2 ** 24 + 1), f80_from(2 ** 31), f80_from(2 ** 31 - 1),
           f80_from(2 ** 32), f80_from(2 ** 32 - 1), f80_from(2 ** 53 + 1), f80_from(2 ** 63), f80_from(2 ** 63 - 1), f80_from(2 ** 64 - 1), f80_from(2 ** 64), f80_from(-2 ** 31),
           f80_from(-2 ** 31 - 1), f80_from(-2 ** 63), f80_from(-2 ** 63 - 1), (0x7ffe << 64) | ((1 << 64) - 1), (0x7fff << 64) | (1 << 63), (0xffff << 64) | (1 << 63),
           (0x7fff << 64) | (3 << 62), (0x3ffb << 64) | 0xcccccccccccccccd, (0x3ffd << 64) | 0xaaaaaaaaaaaaaaab, f80_from(Fraction(511, 2)), f80_from(Fraction(-515, 4)),
           f80_from(Fraction(5, 2)), f80_from(Fraction(7, 2)), f80_from(300), f80_from(40000), f80_from(3000000000), f80_from(10 ** 19), f80_from(Fraction(2 ** 64 - 1) + Fraction(1, 2) - Fraction(1, 2)),
           f80_from(2 ** 64 - 1024), f80_from(2 ** 63 + 2 ** 20), f80_from(Fraction(1, 2 ** 70)), (1 << 64) | (1 << 63), f80_from(65535), f80_from(-32768), f80_from(32767), f80_from(127), f80_from(-128), f80_from(255)]
    for _ in range(8):
        f32.append(rng.getrandbits(32))
        f64.append(rng.getrandbits(64))
        f32.append(f32_bits(rng.uniform(-1000, 1000)))
        f64.append(f64_bits(rng.uniform(-1e6, 1e6)))
        f64.append(f64_bits(float(rng.randrange(-2 ** 40, 2 ** 40))))
        e = rng.randrange(16383 - 70, 16383 + 70)
        f80.append((rng.getrandbits(1) << 79) | (e << 64) | (1 << 63) | rng.getrandbits(63))
    T['f32'], T['f64'], T['f80'] = f32, f64, f80
    for t in ITYPES:
        vs = list(cint.boundary_values(t))
        if t != 'bool':
            vs += [rng.randrange(cint.tmin(t), cint.tmax(t) + 1) for _ in range(6)]
        # integers whose conversion to float / double must round: exact ties, one above and one below a tie, odd and even kept parts, at every magnitude
        if t in ('i64', 'u64', 'i32', 'u32'):
            top = 64 if t == 'u64' else 63 if t == 'i64' else 32 if t == 'u32' else 31
            for keep in (24, 53):
                if keep >= top:
                    continue
                for _ in range(6):
                    width = rng.randrange(keep + 1, top + 1)            # total significant bits of the value
                    drop = width - keep
                    m = (1 << (keep - 1)) | rng.getrandbits(keep - 1)   # kept part with leading 1
                    if rng.random() < 0.5:
                        m |= 1
                    else:
                        m &= ~1
                    half = 1 << (drop - 1)
                    r = rng.choice([half, half + 1, half - 1, half | rng.getrandbits(max(1, drop - 1)) | 1, 1, (1 << drop) - 1]) & ((1 << drop) - 1)
                    v = (m << drop) | r
                    vs.append(v)
                    if t in ('i64', 'i32') and rng.random() < 0.5:
                        vs.append(-v)
            if t == 'u64':
                vs += [0x8000000000000401, 0x8000000000000400, 0x80000000000003ff, 0x8000000000000c01, 0xfffffffffffff401, 0xfffffffffffffbff, 0x8000008000000001, 0x8000018000000000]
        T[t] = vs
    return T


def companion(T):
    o = ['#include <stdarg.h>', '#include <string.h>', '#include "vrt.h"']
    for t in ('f32', 'f64'):
        it = 'unsigned' if t == 'f32' else 'unsigned long'
        o.append('static const %s B_%s[] = {%s};' % (it, t, ', '.join('0x%x%s' % (b, 'u' if t == 'f32' else 'ul') for b in T[t])))
        o.append('%s V_%s[%d];' % (cname(t), t, len(T[t])))
    o.append('static const unsigned char B_f80[][10] = {%s};' % ', '.join('{%s}' % ','.join(str(x) for x in b.to_bytes(10, 'little')) for b in T['f80']))
    o.append('long double V_f80[%d];' % len(T['f80']))
    for t in ITYPES:
        o.append('%s V_%s[] = {%s};' % (cname(t), t, ', '.join(ilit(t, v) for v in T[t])))
    o.append('__attribute__((constructor)) static void fill(void) { memcpy(V_f32, B_f32, sizeof B_f32); memcpy(V_f64, B_f64, sizeof B_f64);'
             ' for (unsigned i = 0; i < sizeof B_f80 / 10; i++) { memset(&V_f80[i], 0, 16); memcpy(&V_f80[i], B_f80[i], 10); } }')
    for t in ALLT:
        o.append('%s id_%s(%s x) { return x; }' % (cname(t), t, cname(t)))
    o.append('''
void vout(long id, int kind, ...) {
  va_list ap; va_start(ap, kind);
  if (kind == 0) { int v = va_arg(ap, int); OUT(id, &v, 4); }
  else if (kind == 1) { unsigned v = va_arg(ap, unsigned); OUT(id, &v, 4); }
  else if (kind == 2) { long v = va_arg(ap, long); OUT(id, &v, 8); }
  else if (kind == 3) { unsigned long v = va_arg(ap, unsigned long); OUT(id, &v, 8); }
  else if (kind == 4) { double v = va_arg(ap, double); OUT(id, &v, 8); }
  else { long double v = va_arg(ap, long double); OUT(id, &v, 10); }
  va_end(ap);
}''')
    return '\n'.join(o) + '\n'


def decls():
    o = ['#include "vrt.h"']
    for t in ALLT:
        o.append('extern %s V_%s[];' % (cname(t), t))
        o.append('%s id_%s(%s x);' % (cname(t), t, cname(t)))
    o.append('void vout(long id, int kind, ...);')
    return '\n'.join(o) + '\n'


def ilit(t, v):
    if t == 'i64':
        return '(-9223372036854775807L-1)' if v == -(1 << 63) else '%dL' % v
    if t == 'u64':
        return '%dUL' % v
    if t == 'u32':
        return '%dU' % v
    if t == 'i32' and v == -(1 << 31):
        return '(-2147483647-1)'
    return '%d' % v


def common(t1, t2):
    for f in ('f80', 'f64', 'f32'):
        if t1 == f or t2 == f:
            return f
    return cint.uac(t1, t2)


def conv_defined(tf, tt, val):
    """Is the conversion of table value `val` (type tf) to type tt defined?"""
    if tt in FT or tf not in FT:
        return True
    v = decode(tf, val)
    if tt == 'bool':
        return True
    if isinstance(v, str):
        return False
    tr = int(v) if v >= 0 else -int(-v)
    return cint.tmin(tt) <= tr <= cint.tmax(tt)


def value_class(t, val):
    if t not in FT:
        return 'int'
    v = decode(t, val)
    if isinstance(v, str):
        return v.strip('-')
    if v == 0:
        return 'zero'
    a = abs(v)
    if a != int(a):
        return 'frac' if a > 1 else 'small'
    for lim, nm in ((2 ** 31, '<2^31'), (2 ** 32, '[2^31,2^32)'), (2 ** 63, '[2^32,2^63)'), (2 ** 64, '[2^63,2^64)')):
        if a < lim:
            return ('-' if v < 0 else '') + nm
    return 'huge'


class Obs:
    __slots__ = ('code', 'key', 'desc', 'n', 'fmt', 'pre')

    def __init__(self, code, key, desc, n, fmt, pre=None):
        self.code, self.key, self.desc, self.n, self.fmt, self.pre = code, key, desc, n, fmt, pre


def L(t, i):
    return 'V_%s[%d]' % (t, i)


def gen(T, rng, scale):
    obs = []
    fts = ['f32', 'f64', 'f80']

    def out_typed(expr, rt, key, desc):
        n = nbytes(rt)
        obs.append(Obs(lambda i, expr=expr, n=n: '{ typeof(%s) r = %s; OUT(%d, &r, %s); }' % (expr, expr, i, n if rt in FT else 'sizeof r'), key, desc or expr, 1, [rt]))
    # binary arithmetic and comparison, same-type and mixed
    pairs = [(a, b) for a in fts for b in fts] + [(a, b) for a in fts for b in ('i32', 'u32', 'i64', 'u64', 'i8', 'u16', 'bool')] + \
            [(b, a) for a in fts for b in ('i32', 'u64', 'i16', 'u8')]
    for (tl, tr) in pairs:
        ct = common(tl, tr)
        for op in ['+', '-', '*', '/', '==', '!=', '<', '<=', '>', '>=']:
            n = scale if (tl == tr) else max(3, scale // 4)
            for _ in range(n):
                i, j = rng.randrange(len(T[tl])), rng.randrange(len(T[tr]))
                if op == '/' and tr not in FT and T[tr][j] == 0:
                    continue
                rt = 'i32' if op in ('==', '!=', '<', '<=', '>', '>=') else ct
                key = 'C02|op|%s|%s|%s|%sx%s' % (op, tl, tr, value_class(tl, T[tl][i]), value_class(tr, T[tr][j]))
                out_typed('(%s %s %s)' % (L(tl, i), op, L(tr, j)), rt, key, None)
    # unary minus, truth tests
    for t in fts:
        for i in range(len(T[t])):
            vc = value_class(t, T[t][i])
            out_typed('(- %s)' % L(t, i), t, 'C02|op|neg|%s|%s' % (t, vc), None)
            e = L(t, i)
            obs.append(Obs(lambda k, e=e: '{ OUTV(%d, !%s); OUTV(%d, %s ? 1 : 2); if (%s) OUTV(%d, 3); else OUTV(%d, 4); OUTV(%d, %s && 1); OUTV(%d, 0 || %s); int n = 0; while (%s) { n++; break; } OUTV(%d, n); }'
                           % (k, e, k, e, e, k, k, k, e, k, e, e, k), 'C02|op|truth|%s|%s' % (t, vc), 'truth of ' + e, 6, ['v'] * 6))
    # conversions: all 12 x 12, every table value where defined; contexts cast/assign/arg/return/vararg
    for tf in ALLT:
        for tt in ALLT:
            if tf not in FT and tt not in FT:
                continue     # integer -> integer belongs to C01
            for i, val in enumerate(T[tf]):
                if not conv_defined(tf, tt, val):
                    continue
                vc = value_class(tf, val)
                key = 'C02|conv|%s->%s|%s' % (tf, tt, vc)
                src = L(tf, i)
                out_typed('((%s)%s)' % (cname(tt), src), tt, key + '|cast', None)
                ctxsel = rng.randrange(4)
                n = nbytes(tt)
                if ctxsel == 0:
                    obs.append(Obs(lambda k, tt=tt, src=src, n=n: '{ %s x; x = %s; OUT(%d, &x, %d); }' % (cname(tt), src, k, n), key + '|assign', 'x = ' + src, 1, [tt]))
                elif ctxsel == 1:
                    obs.append(Obs(lambda k, tt=tt, src=src, n=n: '{ %s x = id_%s(%s); OUT(%d, &x, %d); }' % (cname(tt), tt, src, k, n), key + '|arg', 'id(' + src + ')', 1, [tt]))
                elif ctxsel == 2:
                    obs.append(Obs(lambda k, tt=tt, src=src, n=n: '{ %s x = ret_%d(); OUT(%d, &x, %d); }' % (cname(tt), k, k, n), key + '|return', 'return ' + src, 1, [tt],
                                   pre=lambda k, tt=tt, src=src: 'static %s ret_%d(void) { return %s; }' % (cname(tt), k, src)))
                else:
                    obs.append(Obs(lambda k, tt=tt, src=src, n=n: '{ %s x = 0; x += %s; OUT(%d, &x, %d); }' % (cname(tt), src, k, n), key + '|op=', 'x += ' + src, 1, [tt]))
    # default argument promotions through a variadic function
    for t in fts:
        for i in range(0, len(T[t]), 2):
            kind = 5 if t == 'f80' else 4
            pt = 'f80' if t == 'f80' else 'f64'
            obs.append(Obs(lambda k, t=t, i=i, kind=kind: 'vout(%d, %d, %s);' % (k, kind, L(t, i)), 'C02|vararg|%s|%s' % (t, value_class(t, T[t][i])), 'vout(' + L(t, i) + ')', 1, [pt]))
    # composites
    def tree(d):
        if d <= 0 or rng.random() < 0.25:
            t = rng.choice(fts + fts + ['i32', 'u64', 'i8'])
            return L(t, rng.randrange(len(T[t]))), t
        r = rng.random()
        if r < 0.15:
            e, t = tree(d - 1)
            tt = rng.choice(fts)
            return '((%s)%s)' % (cname(tt), e), tt
        if r < 0.25:
            e, t = tree(d - 1)
            return '(- %s)' % e, (t if t in FT else cint.promote(t))
        a, ta = tree(d - 1)
        b, tb = tree(d - 1)
        op = rng.choice(['+', '-', '*', '/', '+', '*', '<', '==', '>='])
        if ta not in FT and tb not in FT:
            return '((double)%s %s %s)' % (a, op, b), ('i32' if op in ('<', '==', '>=') else common('f64', tb))
        return '(%s %s %s)' % (a, op, b), ('i32' if op in ('<', '==', '>=') else common(ta, tb))
    for _ in range(scale * 60):
        e, t = tree(rng.randrange(2, 5))
        if t in FT:
            out_typed(e, t, 'C02|composite|' + core.sha(e), e)
    # literals
    lits = ['0.1', '0.1f', '0.1L', '1.0000000000000001110223024625156540423631668090820312501', '1.00000005960464477539062501f', '16777217.0f', '16777217.0',
            '9007199254740993.0', '9007199254740993.0L', '0x1p-1074', '0x1.fffffffffffffp+1023', '4.9406564584124654e-324', '2.4703282292062327e-324', '2.4703282292062328e-324',
            '1e-400', '1e400', '1e39f', '3.4028235e38f', '3.4028236e38f', '0x1.000001p0f', '0x1.0000010000001p0f', '1.5e3', '15e2', '.5', '5.', '5.e1', '0x.8p1', '0xap-1f', '1e+2', '1E-2L',
            '123456789012345678901234567890.0', '0.000000000000000000000000000000000000000000001f', '1.17549435e-38f', '1.17549428e-38f', '18446744073709551615.0', '18446744073709551615.0f',
            '18446744073709551616.0L', '0.3L', '1e4931L', '3.3621e-4932L', '1.0F', '2.0l', '0x1.8p1L', '7e22', '8.5e22', '4.35e-6', '2.2250738585072011e-308', '1.7976931348623158e308']
    # constant expressions with float / double intermediates, folded by the compiler in a static initializer (every intermediate is rounded to its own type)
    cexprs = ['(float)0.1', '16777216.0f + 1.0f', '0.1f * 3', '(double)(0.1f + 0.2f)', '1.0f / 3.0f', '(float)1e-50', '(double)(float)16777217', '0.1f + 0.2', '(long double)0.1f * 3',
              '1e38f * 10.0f', '(float)0.1 + (float)0.2', '(0.1f + 0.2f) + 0.3f', '0.1f + (0.2f + 0.3f)', '(float)(0.1 + 0.2)', '1.1f * 1.1f', '(double)1.1f * 1.1f', '16777217.0 - 16777216.0f',
              '(float)16777217 - 16777216.0f', '(float)9007199254740993.0L', '(double)9007199254740993.0L + 1.0', '0.1L + 0.2', '(float)(1.0L / 3)', '3.0f * (1.0f / 3.0f)', '1e-45f / 2',
              '1152921573326323713L', '0x1.000001000000001p0L', '16777217L + 0', '9007199254740993L', '18446744073709551615UL', '0x1.00000000000008000001p0L', '1152921573326323713UL', '-(0.0f)', '0.0f * -1.0f', '(float)-0.0', '1.0f - 1.0f', '(float)1e39', '(double)1e400L', '65504.0f * 1.0009765625f']
    for ce in cexprs:
        for t in ('f32', 'f64', 'f80'):
            n = nbytes(t)
            obs.append(Obs(lambda k, ce=ce, t=t, n=n: '{ static %s y = %s; OUT(%d, &y, %d); %s z = %s; OUT(%d, &z, %d); static int yi = (int)(%s) == (int)(%s); OUTV(%d, yi); }'
                           % (cname(t), ce, k, n, cname(t), ce, k, n, ce, ce, k), 'C02|constexpr|%s|%s' % (t, ce), 'constant expression ' + ce, 3, [t, t, 'v']))
    # floating constants converted to integer types by the compiler (static initializer) and at run time (automatic, volatile operand); in-range values up to the edge
    iconv = [('unsigned long', ['1.5e19', '9223372036854775808.0', '18446744073709549568.0', '1.8e19L', '0x1p63', '0x1.fffffffffffffp63', '1.5e19f', '9223372036854775809.0L', '0.99', '4e18']),
             ('long', ['-9.2e18', '9.2e18', '-0x1p63', '0x1.fffffffffffffp62', '-1.5', '-0.99L']), ('unsigned', ['3e9', '4294967295.0', '2147483648.0f', '4294967295.5L', '2147483647.5']),
             ('int', ['-2147483648.0', '2147483647.0', '-2147483648.9', '2147483647.9L', '-1.9f']), ('unsigned short', ['65535.9', '40000.0f', '32768.0L']), ('short', ['-32768.5', '32767.9L', '300.0f', '2.7f', '-0.6f', '1.5f', '2.5f']),
             ('unsigned char', ['255.9', '128.0f', '200.5L']), ('signed char', ['-128.9', '127.5f', '-1.0L']), ('_Bool', ['0.5', '1e-30f', '-0.0', '256.0', '0.0L'])]
    for (it, vals) in iconv:
        for v in vals:
            vt = 'float' if v[-1] in 'fF' else 'long double' if v[-1] in 'lL' else 'double'
            obs.append(Obs(lambda k, it=it, v=v, vt=vt: '{ static %s y = (%s)%s; OUTV(%d, (long)y); volatile %s src = %s; %s z = (%s)src; OUTV(%d, (long)z); static long w = (%s)(%s) + 0; OUTV(%d, w); }'
                           % (it, it, v, k, vt, v, it, it, k, it, v, k), 'C02|constconv|%s|%s' % (it.replace(' ', '-'), v), 'conversion of the constant %s to %s' % (v, it), 3, ['v', 'v', 'v']))
    for l in lits:
        t = 'f32' if l[-1] in 'fF' else 'f80' if l[-1] in 'lL' else 'f64'
        n = nbytes(t)
        obs.append(Obs(lambda k, l=l, t=t, n=n: '{ %s x = %s; OUT(%d, &x, %d); static %s y = %s; OUT(%d, &y, %d); OUTV(%d, sizeof(%s)); %s z = -%s; OUT(%d, &z, %d); }'
                       % (cname(t), l, k, n, cname(t), l, k, n, k, l, cname(t), l, k, n), 'C02|lit|%s' % l, 'literal ' + l, 4, [t, t, 'v', t]))
    return obs


def canon(line, fmt):
    """Canonicalize NaNs in an output line according to the observation's format."""
    if fmt == 'v' or ':' not in line:
        return line
    pre, h = line.split(':', 1)
    try:
        b = int.from_bytes(bytes.fromhex(h), 'little')
    except ValueError:
        return line
    if fmt in FT and len(h) == 2 * FT[fmt][1] and decode(fmt, b) == 'nan':
        return pre + ':nan'
    return line


def run_tu(a):
    (idx, cc, work, src, comp_o) = a
    p = os.path.join(work, 'tu%d.c' % idx)
    open(p, 'w').write(src)
    res = {}
    for kind in ('chibicc', 'gcc', 'clang'):
        res[kind] = core.build_and_run(kind, cc, p, work, 'tu%d' % idx, extra_objs=[comp_o], timeout=60, probes=True, run_env={'VERIF_PROBE_REPORT': '1'})
    os.unlink(p)
    return idx, res


FLOAT_H = r'''
#include <float.h>
#include <stdio.h>
#define VI(M) printf(#M " | %lld\n", (long long)(M))
#define VF(M) printf(#M " | %La size=%d\n", (long double)(M), (int)sizeof(M))
int main(void) {
  VI(FLT_RADIX); VI(FLT_MANT_DIG); VI(DBL_MANT_DIG); VI(LDBL_MANT_DIG); VI(FLT_DIG); VI(DBL_DIG); VI(LDBL_DIG); VI(FLT_MIN_EXP); VI(DBL_MIN_EXP); VI(LDBL_MIN_EXP); VI(FLT_MAX_EXP); VI(DBL_MAX_EXP); VI(LDBL_MAX_EXP);
  VI(FLT_MIN_10_EXP); VI(DBL_MIN_10_EXP); VI(LDBL_MIN_10_EXP); VI(FLT_MAX_10_EXP); VI(DBL_MAX_10_EXP); VI(LDBL_MAX_10_EXP); VI(DECIMAL_DIG); VI(FLT_EVAL_METHOD); VI(FLT_ROUNDS);
  VI(FLT_DECIMAL_DIG); VI(DBL_DECIMAL_DIG); VI(LDBL_DECIMAL_DIG); VI(FLT_HAS_SUBNORM); VI(DBL_HAS_SUBNORM); VI(LDBL_HAS_SUBNORM);
  VF(FLT_MAX); VF(DBL_MAX); VF(LDBL_MAX); VF(FLT_MIN); VF(DBL_MIN); VF(LDBL_MIN); VF(FLT_EPSILON); VF(DBL_EPSILON); VF(LDBL_EPSILON); VF(FLT_TRUE_MIN); VF(DBL_TRUE_MIN); VF(LDBL_TRUE_MIN);
  /* the characteristics hold for the arithmetic the compiler emits */
  volatile float fe = FLT_EPSILON; volatile double de = DBL_EPSILON; volatile long double le = LDBL_EPSILON, lmax = LDBL_MAX, lmin = LDBL_TRUE_MIN;
  VI((float)(1.0f + fe) != 1.0f); VI((float)(1.0f + fe / 2) == 1.0f); VI(1.0 + de != 1.0); VI(1.0 + de / 2 == 1.0); VI(1.0L + le != 1.0L); VI(1.0L + le / 2 == 1.0L); VI(lmax * 2 > lmax); VI(lmax + lmax / 1e19L == lmax); VI(lmin / 2 == 0); VI(lmin > 0);
  return 0;
}
'''


LD_NESTING = r'''
#include <stdio.h>
#define P(label, e) do { long double r_ = (e); printf(label " %La\n", r_); } while (0)
static long double ldid(long double x) { return x; }
int main(void) {
  volatile long double a = 1.25L, b = 2.5L, c = -0.75L, d = 1e10L;
  P("add-right-8", a + (b + (c + (d + (a + (b + (c + (d + a))))))));
  P("add-right-9", a + (b + (c + (d + (a + (b + (c + (d + (a + b)))))))));
  P("add-right-12", a + (b + (c + (d + (a + (b + (c + (d + (a + (b + (c + (d + a))))))))))));
  P("mul-right-10", a * (b * (c * (b * (a * (b * (c * (b * (a * (b * c))))))))));
  P("sub-right-10", a - (b - (c - (d - (a - (b - (c - (d - (a - (b - c))))))))));
  P("div-right-9", d / (b / (a / (b / (a / (b / (a / (b / (a / b)))))))));
  P("mixed-right-11", a + b * (c - d / (a + b * (c - d / (a + b * (c - d / (a + b * c)))))));
  P("cmp-right-9", (long double)(a < (b + (c + (d + (a + (b + (c + (d + (a + b))))))))));
  P("call-right-9", a + (b + (c + (d + (a + (b + (c + (d + (a + ldid(b))))))))));
  P("cond-right-9", a + (b + (c + (d + (a + (b + (c + (d + (a < b ? a + b : c)))))))));
  P("left-12", ((((((((((a + b) + c) + d) + a) + b) + c) + d) + a) + b) + c) + d);
  return 0;
}
'''


def run(ctx):
    cc = ctx.build('plain')
    work = ctx.tmpdir('c02')
    rng = ctx.rng
    # <float.h> must describe the three formats the emitted arithmetic really uses
    core.header_probe(ctx, cc, work, 'float_h', FLOAT_H, 'C02|float.h|%s')
    # long double operands nested to the right: nine and more values wait for their partner at the same time (the x87 stack holds eight)
    core.header_probe(ctx, cc, work, 'ld_nesting', LD_NESTING, 'C02|long-double-nesting|%s')
    T = tables(rng)
    comp_c = os.path.join(work, 'vals.c')
    open(comp_c, 'w').write(companion(T))
    comp_o = os.path.join(work, 'vals.o')
    rc, o, e = core.sh(['gcc', '-O0', '-w', '-c', '-I' + os.path.join(core.VERIF, 'rt'), '-o', comp_o, comp_c])
    if rc != 0:
        raise core.Inconclusive('companion does not compile: ' + e.decode()[-500:])
    ctx.rule = ('observation = raw bytes (4/8/10) of `typeof(E) r = (E)` or of the converted object; operands are bit patterns from run-time tables; '
                'grid = 10 binary operators x 37 operand type pairs, unary minus and 6 truth tests x 3 types x all table values, 12x12 conversions x all table '
                'values for which the conversion is defined, variadic promotions, 48 literals; distinct = distinct key cells '
                '(operator/conversion, types, value classes, context)')
    ctx.assumptions += ['oracle: gcc -O0 == clang -O0 (observations on which they differ are discarded and counted)', 'all NaNs are one equivalence class; -0 != +0',
                        'fp->int conversions are generated only when the truncated value is representable (exact Fraction test)']
    obs = gen(T, rng, ctx.scale(120, 2500))
    decl = decls()
    tus = []
    for k in range(0, len(obs), PER_TU):
        chunk = obs[k:k + PER_TU]
        pre = [o.pre(k + j) for j, o in enumerate(chunk) if o.pre]
        body = [o.code(k + j) for j, o in enumerate(chunk)]
        owners = []
        for j, o in enumerate(chunk):
            for q in range(o.n):
                owners.append((o, o.fmt[q]))
        tus.append((decl + '\n'.join(pre) + '\nint main(void) {\n' + '\n'.join(body) + '\nreturn 0;\n}\n', owners))
    results = core.pmap(run_tu, [(i, cc, work, t[0], comp_o) for i, t in enumerate(tus)])
    amb = 0
    probes = 0
    for idx, res in results:
        src, owners = tus[idx]
        g, c, x = res['gcc'], res['clang'], res['chibicc']
        if g['stage'] != 'run' or c['stage'] != 'run' or g['rc'] != 0 or c['rc'] != 0:
            raise core.Inconclusive('reference failed on a generated TU: ' + (g['err'] + c['err']).decode('utf-8', 'replace')[-400:])
        files = {'tu.c': src, 'vals.c': companion(T)}
        script = ('CHIBICC_VERIF_PROBES=1 $CHIBICC -I$VERIF/rt -c -o tu.o tu.c && gcc -I$VERIF/rt -c -w vals.c -o vals.o && gcc -o tu.exe tu.o vals.o $RT && ./tu.exe > got.txt; '
                  'gcc -w -I$VERIF/rt -o ref.exe tu.c vals.o $RT && ./ref.exe > ref.txt; cmp -s got.txt ref.txt && exit 0; diff got.txt ref.txt | head; exit 1')
        lx = x['out'].decode('utf-8', 'replace').split('\n')[:-1] if x['stage'] == 'run' else []
        pf = [l for l in lx if l.startswith('PROBE-FAIL')]
        if pf:
            m = re.search(r'PROBE-FAIL (\S+)', pf[0])
            ctx.violation('C02|probe|%s' % m.group(1), 'statement probe fired in a floating-point TU: ' + pf[0], files=files, script=script)
            continue
        if x['stage'] != 'run' or x['rc'] != 0:
            ctx.violation('C02|tu|%s-fail' % x['stage'], 'chibicc failed (%s rc=%s): %s' % (x['stage'], x['rc'], core.first_line(x['err'].decode('utf-8', 'replace'))), files=files, script=script)
            continue
        lg = g['out'].decode().split('\n')[:-1]
        lc = c['out'].decode().split('\n')[:-1]
        pl = [l for l in lx if l.startswith('PROBES ')]
        lx = [l for l in lx if not l.startswith('PROBES ')]
        lg = [l for l in lg if not l.startswith('PROBES ')]
        lc = [l for l in lc if not l.startswith('PROBES ')]
        if pl:
            probes += int(pl[0].split()[1])
        if len(lg) != len(owners) or len(lc) != len(owners):
            raise core.Inconclusive('reference output has %d/%d lines, expected %d' % (len(lg), len(lc), len(owners)))
        ctx.evaluations += len(owners)
        ctx.count('observations', len(owners))
        if len(lx) != len(owners):
            ctx.violation('C02|tu|output-shape', 'chibicc build printed %d lines, expected %d' % (len(lx), len(owners)), files=files, script=script)
            continue
        for ln, (o, fmt) in enumerate(owners):
            a, b, d = canon(lx[ln], fmt), canon(lg[ln], fmt), canon(lc[ln], fmt)
            if b != d:
                amb += 1
                continue
            if a != b:
                ctx.violation(o.key, '%s: chibicc gives %s, gcc = clang give %s' % (o.desc, a, b), files=files, script=script)
    for o in obs:
        ctx.saw(o.key)
    ctx.count('reference_ambiguous', amb)
    ctx.count('statement_probes_executed', probes)
    if amb > 0.02 * len(obs):
        ctx.note_inconclusive('gcc and clang disagree on %d observations' % amb)
    if probes == 0:
        ctx.note_inconclusive('statement probes never executed (hook not active?)')
    for o in (obs[0], obs[len(obs) // 3], obs[-1]):
        ctx.sample({'key': o.key, 'code': o.code(0)})
    ctx.extra['exhaustive_subspaces'] = ['12x12 arithmetic conversions with a floating side: all 63 type pairs x every table value for which C11 defines the result']
