"""C19 - preprocessed output is a faithful program.

(1) token-class pair grid: every pair of pp-token classes (sign/increment operators, `.`/numbers, pp-numbers with exponents,
    identifiers, string prefixes, digraph look-alikes, `/` `*` ...) is made adjacent *by macro expansion*, with and without
    white space; the text printed by -E must re-lex (independent pp-tokenizer) to the token sequence gcc -E == clang -E give,
    and preprocessing it again must change nothing;
(2) corpus: for every test program, compiling the -E output must give the same assembly (up to .file/.loc) as compiling the
    source, and E(E(x)) == E(x)."""
import os, re, itertools
from lib import core, pptok

LEVEL = 'exploration'
MIN_COUNTS = {'pair_cases': (1500, 1500), 'corpus_files': (30, 40)}

CLASSES = [('plus', '+'), ('minus', '-'), ('inc', '++'), ('dec', '--'), ('dot', '.'), ('ellipsis', '...'), ('amp', '&'), ('andand', '&&'), ('or', '|'), ('oror', '||'),
           ('lt', '<'), ('shl', '<<'), ('le', '<='), ('gt', '>'), ('shr', '>>'), ('ge', '>='), ('assign', '='), ('eq', '=='), ('not', '!'), ('ne', '!='),
           ('slash', '/'), ('star', '*'), ('percent', '%'), ('caret', '^'), ('hash', '#'), ('hashhash', '##'), ('arrow', '->'), ('colon', ':'), ('semi', ';'),
           ('ident', 'x'), ('identL', 'L'), ('identu8', 'u8'), ('identU', 'U'), ('int', '1'), ('float-dot', '1.'), ('dot-float', '.5'), ('exp', '1e'), ('hexexp', '0x1p'),
           ('longnum', '12L'), ('hex-ending-e', '0xe'), ('hex-ending-E', '0x1E'), ('hex-float-p', '0x1.8p'), ('dec-ending-e-suffix', '2e1f'), ('ident-e', 'e'), ('ident-p', 'p1'), ('ident-utf8-tail', 'clé'), ('ident-utf8-head', 'ñu'), ('ident-cjk', '変数'), ('ident-greek', 'αβ'), ('ident-dollar', 'a$'), ('string', '"s"'), ('char', "'c'"), ('lparen', '('), ('rparen', ')'), ('comma', ','), ('minus-eq', '-='), ('shl-eq', '<<=')]


def pair_case(a, b):
    """Source in which tokens a and b become adjacent through macro expansion in several ways."""
    (na, ta), (nb, tb) = a, b
    lines = ['#define EMPTY', '#define ID(x) x', '#define TWO(x, y) x y', '#define GLUE(x, y) x EMPTY y', '#define TIGHT(x, y) x/**/y', '#define PA %s' % ta, '#define PB %s' % tb]
    uses = ['1: PA PB', '2: PA EMPTY PB', '3: ID(%s)PB' % ta if ta not in (',', '(', ')') else '3: PA PB', '4: TWO(PA, PB)', '5: GLUE(PA, PB)', '6: TIGHT(PA, PB)',
            '7: %sPB' % ta if not (ta[-1].isalnum() or ta[-1] == '_' or ta[-1] in '"\'') else '7: %s PB' % ta,
            '8: PA%s' % tb if not (tb[0].isalnum() or tb[0] == '_' or tb[0] in '"\'(') else '8: PA %s' % tb, '9: ID(PA)ID(PB)']
    raw = ta not in (',', '(', ')', '#', '##') and tb not in (',', '(', ')', '#', '##')
    wa = ta[-1].isalnum() or ta[-1] in '_"\''
    wb = tb[0].isalnum() or tb[0] in '_"\'.'
    if raw:
        # source tokens (not macro-made) around an empty expansion, and a line break inside the arguments of one invocation
        uses += ['10: %s%sEMPTY%s%s' % (ta, ' ' if wa else '', ' ' if wb else '', tb), '11: ID(%s\n%s)' % (ta, tb), '12: TWO(%s\n,\n%s)' % (ta, tb), '13: ID(x %s\n%s y)' % (ta, tb),
                 '14: %s%sID()%s%s' % (ta, ' ' if wa else '', ' ' if wb else '', tb)]
    if ta not in (',', '(', ')') and tb not in (',', '(', ')'):
        # invocations whose parentheses stand on other lines than the macro name: the expansion belongs where the name stood (a # that comes
        # out of it mid-line must not end up at the start of a line of the output, where it would be read as a directive)
        sp = ' ' if (wa and wb) or True else ''
        uses += ['15: x ID(%s%s%s\n) y' % (ta, sp, tb), '16: x ID\n(%s%s%s) y' % (ta, sp, tb), '17: x TWO(%s,\n%s\n) y' % (ta, tb) if tb != '#' else '17: x TWO(%s,\nz %s\n) y' % (ta, tb),       # a # first on a line inside the arguments would be undefined (C11 6.10.3p11)
                 '18: x ID(ID(%s%s%s\n)\n) y' % (ta, sp, tb),
                 '19: x ID(\n) %s%s%s ID(\n\n) y' % (ta, sp, tb)]
    if ta in ('#', '##') or tb in ('#', '##'):
        lines = [l for l in lines if 'PA' not in l.split(' ')[1:2] or True]
    return '\n'.join(lines + uses) + '\n'


def run_pair(a):
    (idx, cc, work, src) = a
    p = os.path.join(work, 'g%d.c' % idx)
    open(p, 'w').write(src)
    rg = core.sh(['gcc', '-E', '-P', '-w', '-std=gnu11', p], timeout=20)
    rc = core.sh(['clang', '-E', '-P', '-w', '-std=gnu11', p], timeout=20)
    rx = core.sh([cc, '-E', p], env=core.SAN_ENV, timeout=20)
    r2 = None
    if rx[0] == 0:
        q = os.path.join(work, 'g%d.i.c' % idx)
        open(q, 'wb').write(rx[1])
        r2 = core.sh([cc, '-E', q], env=core.SAN_ENV, timeout=20)
        os.unlink(q)
    os.unlink(p)
    return idx, rg, rc, rx, r2


def deucn(t):
    """gcc -E spells extended identifier characters as universal character names, clang and chibicc as UTF-8: compare the characters."""
    t = re.sub(r'\\U([0-9a-fA-F]{8})', lambda m: chr(int(m.group(1), 16)), t)
    return re.sub(r'\\u([0-9a-fA-F]{4})', lambda m: chr(int(m.group(1), 16)), t)


def unfuse(a, b):
    """Two reference token sequences that differ only where one printer glued two pp-tokens that the other keeps apart (clang 14 prints
    `u8` `"s"` as u8"s") agree on the intended sequence: the unglued one.  Returns it, or None if they differ in any other way."""
    out = []
    i = j = 0
    while i < len(a) and j < len(b):
        if a[i] == b[j]:
            out.append(a[i]); i += 1; j += 1
        elif i + 1 < len(a) and a[i] + a[i + 1] == b[j]:
            out += [a[i], a[i + 1]]; i += 2; j += 1
        elif j + 1 < len(b) and b[j] + b[j + 1] == a[i]:
            out += [b[j], b[j + 1]]; i += 1; j += 2
        else:
            return None
    return out if i == len(a) and j == len(b) else None


def strip_asm(b):
    return b'\n'.join(l for l in b.split(b'\n') if not l.startswith(b'  .file') and not l.startswith(b'  .loc'))


def run_corpus(a):
    (cc, work, path, inc) = a
    base = os.path.join(work, os.path.basename(path))
    r1 = core.sh([cc, '-S', '-o', base + '.s1', path] + inc, timeout=120)
    re_ = core.sh([cc, '-E', '-o', base + '.i.c', path] + inc, timeout=120)
    if r1[0] != 0 or re_[0] != 0:
        return path, 'skip', (r1[2] + re_[2])[-300:]
    r2 = core.sh([cc, '-S', '-o', base + '.s2', base + '.i.c'], timeout=120)
    ree = core.sh([cc, '-E', '-o', base + '.ii.c', base + '.i.c'], timeout=120)
    res = 'ok'
    detail = b''
    if r2[0] != 0:
        res, detail = 'E-output-rejected', r2[2][-400:]
    else:
        s1, s2 = strip_asm(open(base + '.s1', 'rb').read()), strip_asm(open(base + '.s2', 'rb').read())
        if s1 != s2:
            d = core.first_diff(s2, s1)
            res, detail = 'asm-differs', ('line %d: from -E output: %s | from source: %s' % d).encode()
    if res == 'ok' and ree[0] == 0:
        t1 = pptok.spellings(open(base + '.i.c', errors='replace').read())
        t2 = pptok.spellings(open(base + '.ii.c', errors='replace').read())
        if t1 != t2:
            k = next((i for i in range(min(len(t1), len(t2))) if t1[i] != t2[i]), -1)
            res, detail = 'not-idempotent', ('token %d: %s vs %s' % (k, t1[k - 2:k + 3], t2[k - 2:k + 3])).encode()
    for ext in ('.s1', '.s2', '.i.c', '.ii.c'):
        try:
            os.unlink(base + ext)
        except OSError:
            pass
    return path, res, detail


def run(ctx):
    cc = ctx.build('san')
    plain = ctx.build('plain')
    work = ctx.tmpdir('c19')
    snap = ctx.snapshot()
    ctx.rule = ('pair case = ordered pair of token classes made adjacent by macro expansion in 9 ways; -E text re-lexed by an independent pp-tokenizer must equal gcc -E == '
                'clang -E tokens and be a fixpoint of -E; corpus case = test program: asm(E(x)) == asm(x) modulo .file/.loc and E(E(x)) == E(x); distinct = pairs + files')
    ctx.assumptions += ['pairs on which gcc and clang disagree or which they reject are discarded', 'programs using __LINE__-dependent output after -E are compared anyway: -E already substituted them']
    pairs = list(itertools.product(CLASSES, CLASSES))
    if ctx.quick():
        pairs = pairs[::1]
    cases = [(pair_case(a, b), a[0], b[0]) for (a, b) in pairs]
    # random sequences of 3..8 token classes glued by macro expansion
    rng = ctx.rng
    for k in range(ctx.scale(400, 20000)):
        seq = [rng.choice(CLASSES) for _ in range(rng.randrange(3, 9))]
        lines = ['#define EMPTY', '#define ID(x) x'] + ['#define M%d %s' % (i, t) for i, (n2, t) in enumerate(seq)]
        use = '1: ' + ''.join(rng.choice(['ID(M%d)', 'ID(M%d) ', 'ID(M%d)EMPTY ', 'ID(M%d)/**/']) % i if seq[i][1] not in (',', '(', ')') else 'M%d ' % i for i in range(len(seq)))
        cases.append(('\n'.join(lines + [use]) + '\n', 'seq', '+'.join(n2 for n2, t in seq)))
    results = core.pmap(run_pair, [(i, cc, work, c[0]) for i, c in enumerate(cases)], chunksize=16)
    for idx, rg, rc, rx, r2 in results:
        src, na, nb = cases[idx]
        ctx.evaluations += 1
        if rg[0] != 0 or rc[0] != 0:
            ctx.count('pairs_discarded_reference_rejects')
            continue
        tg, tc = pptok.spellings(deucn(rg[1].decode('utf-8', 'replace'))), pptok.spellings(deucn(rc[1].decode('utf-8', 'replace')))
        if tg != tc:
            tg = unfuse(tg, tc)
            if tg is None:
                ctx.count('pairs_discarded_reference_ambiguous')
                continue
            ctx.count('pairs_one_reference_printer_glues_tokens')
        ctx.count('pair_cases')
        ctx.saw('pair:%s,%s' % (na, nb))
        key = 'C19|pair|%s|%s' % (na, nb)
        files = {'case.c': src}
        script = ('$CHIBICC -E case.c > got.txt || exit 1; gcc -E -P -w case.c > ref.txt; python3 -c "import sys; sys.path.insert(0, \'$VERIF\'); from lib import pptok; '
                  'sys.exit(0 if pptok.spellings(open(\'got.txt\').read()) == pptok.spellings(open(\'ref.txt\').read()) else 1)"')
        et = rx[2].decode('utf-8', 'replace')
        if rx[0] != 0:
            ctx.violation(key + '|rejected', 'chibicc -E failed (%s): %s' % (rx[0], core.first_line(et)), files=files, script=script)
            continue
        tx = pptok.spellings(deucn(rx[1].decode('utf-8', 'replace')))
        if tx != tg:
            k = next((i for i in range(min(len(tx), len(tg))) if tx[i] != tg[i]), min(len(tx), len(tg)))
            ctx.violation(key, '-E text re-lexes to ...%s, intended (gcc = clang) ...%s' % (' '.join(tx[max(0, k - 3):k + 3]), ' '.join(tg[max(0, k - 3):k + 3])), files=files, script=script)
            continue
        if r2 is not None and r2[0] == 0:
            t2 = pptok.spellings(r2[1].decode('utf-8', 'replace'))
            if t2 != tx:
                ctx.violation(key + '|not-idempotent', 'preprocessing the -E output again changes the token sequence', files=files, script=script)
        elif r2 is not None:
            ctx.violation(key + '|reprocess-rejected', 'the -E output is rejected when preprocessed again: ' + core.first_line(r2[2].decode('utf-8', 'replace')), files=files, script=script)
    # corpus
    tests = sorted(f for f in os.listdir(os.path.join(snap, 'test')) if f.endswith('.c'))
    jobs = [(plain, work, os.path.join(snap, 'test', f), ['-I' + os.path.join(snap, 'test'), '-I' + snap]) for f in tests]
    jobs += [(plain, work, os.path.join(snap, f), ['-I' + snap]) for f in sorted(os.listdir(snap)) if f.endswith('.c')]
    for path, res, detail in core.pmap(run_corpus, jobs):
        ctx.evaluations += 1
        name = os.path.relpath(path, snap)
        if res == 'skip':
            ctx.count('corpus_skipped')
            continue
        ctx.count('corpus_files')
        ctx.saw('corpus:' + name)
        if res != 'ok':
            ctx.violation('C19|roundtrip|%s|%s' % (name, res), '%s: %s' % (name, detail.decode('utf-8', 'replace')[:300]),
                          script='$CHIBICC -E -o x.i.c %s -I$(dirname $CHIBICC)/test && $CHIBICC -S -o x2.s x.i.c && exit 0; exit 1' % name)
    ctx.sample({'pair_case': cases[5][0]})
    ctx.extra['exhaustive_subspaces'] = ['all %d ordered pairs of %d token classes x up to 19 adjacency constructions' % (len(pairs), len(CLASSES))]
