"""C05 - initializers produce exactly the object value of C11 6.7.9.

For a generated type an initializer spelling is generated from the grammar (full braces, brace elision, nested and
out-of-order designators, array index ranges, short lists, trailing commas, re-initialisation, strings of every prefix into
arrays of every element type, unions via first member and designator, unknown bounds, flexible array members, address
constants).  The same text initialises `static T s = ...;` and `T a = ...;` in a function entered after dirty_stack().
Monitor: member-wise dump of both instances (+ raw bytes of the static one when it holds no pointers) vs gcc == clang,
and static vs automatic inside the chibicc run."""
import os, random, re
from lib import core, cint, ctype
from lib.ctype import Scalar, Array, Agg

LEVEL = 'exploration'
MIN_COUNTS = {'observations': (50000, 500000), 'initializers': (6000, 60000)}


class IG:
    """Initializer generator for a ctype type."""
    def __init__(self, rng):
        self.rng = rng
        self.feats = set()
        self.cnt = 0

    def scalar(self, s, bits=None, nobrace=False):
        r = self.rng
        self.cnt += 1
        if s == 'ptr':
            k = r.randrange(0, 40)
            return r.choice(['gstr + %d' % k, '&gstr[%d]' % k, '0', '"lit%d" + %d' % (self.cnt % 7, r.randrange(0, 3)), '(char *)gstr + %d' % k, '&*(gstr + %d)' % k])
        if s in ('f32', 'f64', 'f80'):
            return r.choice(['%d.5' % r.randrange(0, 50), '-%d.25f' % r.randrange(0, 9), '%d' % r.randrange(0, 99), '1e%d' % r.randrange(0, 9), '%d.0L / 4' % r.randrange(1, 99)])
        if s == 'bool' or bits == 1:
            if bits == 1 and s != 'bool' and s in cint.TYPES and cint.signed(s):
                return r.choice(['0', '-1'])
            return r.choice(['0', '1', '1', '2 > 1'] + (['7', '256', '0.5'] if s == 'bool' and bits is None else []))
        w = bits if bits is not None else cint.bits(s)
        if cint.signed(s):
            lo, hi = -(1 << (w - 1)), (1 << (w - 1)) - 1
        else:
            lo, hi = 0, (1 << w) - 1
        v = r.choice([lo, hi, 1, r.randrange(lo, hi + 1), r.randrange(max(lo, -100), min(hi, 100) + 1)])
        if v == -(1 << 63):
            return '(-9223372036854775807L - 1)'
        t = str(v) + ('UL' if v > (1 << 63) - 1 else 'L' if abs(v) > (1 << 31) - 1 else '')
        if r.random() < 0.15:
            t = '%s + 0' % t if v >= 0 else '(%s)' % t
        if r.random() < 0.08 and not nobrace:
            self.feats.add('braced-scalar')
            return '{%s}' % t
        return t

    def full_flat(self, ty):
        """All leaves in order without inner braces (used for brace elision)."""
        if isinstance(ty, Scalar):
            return [self.scalar(ty.s, nobrace=True)]
        if isinstance(ty, Array):
            out = []
            for i in range(ty.n):
                out += self.full_flat(ty.elem)
            return out
        out = []
        ms = [m for m in ty.members if not (m.bits is not None and m.name is None)]
        if ty.kind == 'union':
            ms = ms[:1]
        for m in ms:
            if m.bits is not None:
                out.append(self.scalar(m.ty.s, m.bits, nobrace=True))
            else:
                out += self.full_flat(m.ty)
        return out

    def init(self, ty, top=False):
        """Braced (or scalar) initializer for ty."""
        r = self.rng
        if isinstance(ty, Scalar):
            return self.scalar(ty.s)
        if isinstance(ty, Array):
            return self.array(ty, top)
        if ty.kind == 'union':
            return self.union(ty)
        return self.struct(ty)

    def comma(self, items):
        if not items:
            self.feats.add('empty-braces')
            return '{}'
        t = ', '.join(items)
        if self.rng.random() < 0.2:
            self.feats.add('trailing-comma')
            t += ','
        return '{' + t + '}'

    def elem(self, ty):
        """Initializer for a sub-object: braced, or brace-elided (fully flattened)."""
        if isinstance(ty, Scalar):
            return [self.scalar(ty.s)]
        if self.rng.random() < 0.25 and not has_flex(ty) and flat_ok(ty):
            self.feats.add('brace-elision')
            return self.full_flat(ty)
        return [self.init(ty)]

    def array(self, ty, top=False):
        r = self.rng
        n = ty.n
        e = ty.elem
        if isinstance(e, Scalar) and e.s in ('i8', 'u8', 'u16', 'i32', 'u32') and r.random() < 0.3:
            pre = {'i8': ['', 'u8'], 'u8': ['', 'u8'], 'u16': ['u'], 'i32': ['L'], 'u32': ['U']}[e.s]
            pfx = r.choice(pre)
            maxlen = n if n is not None else 6
            ln = r.randrange(0, maxlen + 1)
            body = ''.join(r.choice(['a', 'B', 'z', 'Q', '\\n', '\\x7f" "', '\\0" "', '\\101', ' ', 'q']) for _ in range(ln))
            if n is not None and ln == n:
                self.feats.add('string-exact-fit')
            self.feats.add('string:%s' % (pfx or 'plain'))
            s = '%s"%s"' % (pfx, body)
            s = s.replace('" "', '" %s"' % pfx)
            if ln >= 2 and r.random() < 0.3 and '\\' not in body:
                cut = r.randrange(1, len(body))
                if True:
                    s = '%s"%s" %s"%s"' % (pfx, body[:cut], r.choice([pfx, '']), body[cut:])
                    self.feats.add('string-concat')
            if r.random() < 0.3:
                s = '{%s}' % s
            return s
        count = n if n is not None else r.randrange(1, 5)
        items = []
        if r.random() < 0.3 and count > 0:
            # designated (out of order / ranges / re-initialisation only for scalar elements: re-initialising an
            # aggregate element is the open finding C05|reinit-subobject and has its own probe)
            self.feats.add('array-designator')
            scalar_elem = isinstance(e, Scalar)
            pos = sorted(r.sample(range(count), r.randrange(1, count + 1))) if not scalar_elem else [r.randrange(count) for _ in range(r.randrange(1, count + 2))]
            if not scalar_elem and r.random() < 0.5:
                r.shuffle(pos)
                self.feats.add('out-of-order')
            used = set()
            for i in pos:
                if not scalar_elem and i in used:
                    continue
                if r.random() < 0.25 and i + 1 < count and (scalar_elem or not any(j in used or j in pos for j in range(i + 1, count))):
                    j = r.randrange(i, count)
                    self.feats.add('range-designator')
                    items.append('[%d ... %d] = %s' % (i, j, self.one(e)))
                    used |= set(range(i, j + 1))
                    if r.random() < 0.5 and j + 1 < count and (scalar_elem or (j + 1 not in used and j + 1 not in pos)):
                        items.append(self.one(e))       # continues after the end of the range
                        used.add(j + 1)
                else:
                    items.append('[%d] = %s' % (i, self.one(e)))
                    used.add(i)
                    if r.random() < 0.4 and i + 1 < count and (scalar_elem or (i + 1 not in used and i + 1 not in pos)):
                        items.append(self.one(e))       # continues after the designated element
                        used.add(i + 1)
            return self.comma(items)
        m = count if r.random() < 0.6 else r.randrange(0, count + 1)
        if m < count:
            self.feats.add('short-list')
        for i in range(m):
            items += self.elem(e)
        return self.comma(items)

    def one(self, ty):
        return self.scalar(ty.s) if isinstance(ty, Scalar) else self.init(ty)

    def named_paths(self, ty, ups=frozenset()):
        """Designator paths (first step must be a member of ty; anonymous members are looked through).
        Each entry carries the set of union objects it lies in (two designators into one union would re-initialise it)."""
        out = []
        if ty.kind == 'union':
            ups = ups | {id(ty)}
        for m in ty.members:
            if m.bits is not None:
                if m.name:
                    out.append(('.' + m.name, Scalar(m.ty.s), m.bits, ups))
                continue
            if m.name is None:
                out += self.named_paths(m.ty, ups)
                continue
            out.append(('.' + m.name, m.ty, None, ups))
        return out

    def deeper(self, path, ty, bits, ups=frozenset()):
        """Optionally extend a designator into the sub-object."""
        r = self.rng
        ups = set(ups)
        while r.random() < 0.4:
            if isinstance(ty, Array) and ty.n:
                path += '[%d]' % r.randrange(ty.n)
                ty = ty.elem
                self.feats.add('nested-designator')
            elif isinstance(ty, Agg) and not ty.flexible:
                ps = self.named_paths(ty)
                if not ps:
                    break
                p, ty, bits, u2 = r.choice(ps)
                ups |= {(path, u) for u in u2}
                path += p
                self.feats.add('nested-designator')
            else:
                break
        return path, ty, bits, ups

    def struct(self, ty):
        r = self.rng
        ms = [m for m in ty.members if not (m.bits is not None and m.name is None)]
        if ty.flexible:
            ms = ms[:-1]
        items = []
        if r.random() < 0.35:
            self.feats.add('member-designator')
            ps = self.named_paths(ty)
            ps = [p for p in ps if not (isinstance(p[1], Array) and p[1].n is None)]
            if ps:
                chosen = []
                for _ in range(r.randrange(1, len(ps) + 2)):
                    p, t, b, u0 = r.choice(ps)
                    p, t, b, ups = self.deeper(p, t, b, {('', u) for u in u0})
                    clash = False
                    for (q, tq, uq) in chosen:
                        if q != p and (ups & uq):
                            clash = True                  # second designator into the same union object
                        if q == p and isinstance(t, Scalar):
                            continue                      # scalar re-initialisation: last one wins
                        if q == p or q.startswith(p + '.') or q.startswith(p + '[') or p.startswith(q + '.') or p.startswith(q + '['):
                            clash = True
                    if clash:
                        continue
                    chosen.append((p, t, ups))
                    items.append('%s = %s' % (p, self.scalar(t.s, b) if isinstance(t, Scalar) else self.init(t)))
                if len(items) > len(set(i.split(' = ')[0] for i in items)):
                    self.feats.add('re-initialisation')
                return self.comma(items)
        m = len(ms) if r.random() < 0.6 else r.randrange(0, len(ms) + 1)
        if m < len(ms):
            self.feats.add('short-list')
        for mem in ms[:m]:
            if mem.bits is not None:
                items.append(self.scalar(mem.ty.s, mem.bits))
            else:
                if mem.name is None:
                    self.feats.add('anonymous-member')
                items += self.elem(mem.ty)
        if ty.flexible and m == len(ms) and r.random() < 0.5:
            fam = ty.members[-1]
            self.feats.add('flexible-array-member')
            self.fam_n = r.randrange(1, 4)
            items.append(self.comma([self.scalar(fam.ty.elem.s, nobrace=True) for _ in range(self.fam_n)]))
        return self.comma(items)

    def union(self, ty):
        r = self.rng
        ms = [m for m in ty.members if not (m.bits is not None and m.name is None)]
        if r.random() < 0.5:
            ps = self.named_paths(ty)
            if ps:
                self.feats.add('union-designator')
                p, t, b, _u = r.choice(ps)
                items = ['%s = %s' % (p, self.scalar(t.s, b) if isinstance(t, Scalar) else self.init(t))]

                def head(q):
                    m = re.match(r'\.\w+', q)
                    return m.group(0) if m else q
                sib = [q for q in ps if q[0] != p and head(q[0]) == head(p) and q[3] == _u and not q[0].startswith(p) and not p.startswith(q[0])]
                if sib and r.random() < 0.5:
                    # further designators into the member already chosen (another one would re-initialise the union)
                    self.feats.add('union-designator-list')
                    for (p2, t2, b2, _u2) in r.sample(sib, min(len(sib), r.randrange(1, 3))):
                        items.append('%s = %s' % (p2, self.scalar(t2.s, b2) if isinstance(t2, Scalar) else self.init(t2)))
                tail = ''
                if r.random() < 0.4:
                    self.feats.add('union-designator-trailing-comma')
                    tail = ','
                return '{%s%s}' % (', '.join(items), tail)
        first = ms[0]
        if first.bits is not None:
            return '{%s}' % self.scalar(first.ty.s, first.bits)
        inner = self.elem(first.ty)
        return self.comma(inner)


def has_flex(ty):
    if isinstance(ty, Agg):
        return ty.flexible or any(has_flex(m.ty) for m in ty.members)
    if isinstance(ty, Array):
        return ty.n is None or has_flex(ty.elem)
    return False


def flat_ok(ty):
    """Brace elision is only generated for sub-objects without unions-with-aggregates ambiguity."""
    if isinstance(ty, Agg):
        if ty.kind == 'union':
            ms = [m for m in ty.members if not (m.bits is not None and m.name is None)]
            return bool(ms) and (ms[0].bits is not None or flat_ok(ms[0].ty))
        return all(flat_ok(m.ty) for m in ty.members if m.bits is None)
    if isinstance(ty, Array):
        return ty.n is not None and flat_ok(ty.elem)
    return True


def has_ptr(ty):
    if isinstance(ty, Agg):
        return any(has_ptr(m.ty) for m in ty.members)
    if isinstance(ty, Array):
        return has_ptr(ty.elem)
    return ty.s == 'ptr'


def has_union(ty):
    if isinstance(ty, Agg):
        return ty.kind == 'union' or any(has_union(m.ty) for m in ty.members)
    if isinstance(ty, Array):
        return has_union(ty.elem)
    return False


PRELUDE = '''#include "vrt.h"
char gstr[64] = "0123456789abcdefghijklmnopqrstuvwxyzABCDEFGHIJKLMNOPQRSTUVWXYZ.";
static void DUMPP(long id, char *p) {
  if (!p) OUTS(id, "<null>");
  else if (p >= gstr && p < gstr + 64) OUTV(id, p - gstr);
  else OUTS(id, p);
}
static void DUMPQ(long id, char *p) {   /* for pointer members that may hold non-pointer bits (unions): never dereferenced */
  if (!p) OUTS(id, "<null>");
  else if (p >= gstr && p < gstr + 64) OUTV(id, p - gstr);
  else OUTS(id, "<other>");
}
'''


def dump(k, lv, ty):
    out = []
    dp = 'DUMPQ' if has_union(ty) else 'DUMPP'
    for (path, s, bits) in lv:
        if bits is not None:
            out.append('OUTV(%d, %s);' % (k, path))
        elif s == 'ptr':
            out.append('%s(%d, %s);' % (dp, k, path))
        elif s == 'f80':
            out.append('OUT(%d, &%s, 10);' % (k, path))
        else:
            out.append('OUT(%d, &%s, sizeof(%s));' % (k, path, path))
    return out


def one_case(k, rng, lines, fns, calls, owners):
    g = ctype.Gen(rng, packed=False, max_depth=rng.choice([1, 2, 3]), max_members=rng.choice([2, 3, 5]), flex=rng.random() < 0.15, ldouble=True)
    x = rng.random()
    top_unknown = False
    if x < 0.2:
        ty = Array(g.ty(1), None)     # unknown bound
        top_unknown = True
    elif x < 0.3:
        ty = Array(g.ty(1), rng.randrange(1, 5))
    elif x < 0.36:
        ty = g.scalar()
    else:
        ty = g.agg(0)
    while has_union(ty) and has_ptr(ty):      # a pointer overlapping other members would expose absolute addresses
        ty = g.agg(0)
        top_unknown = False
    ig = IG(rng)
    if top_unknown:
        ig.feats.add('unknown-bound')
    init = ig.init(ty, top=True)
    flex_init = 'flexible-array-member' in ig.feats
    tname = 'T%d' % k
    if isinstance(ty, Agg):
        ty.tag = tname
        lines.append(ty.body() + ';')
        declspec = '%s %s' % (ty.kind, tname)
        decl = lambda nm: '%s %s' % (declspec, nm)
    else:
        decl = lambda nm: ctype.declare(ty, nm)
    lines.append('static %s = %s;' % (decl('s%d' % k), init))
    feats = '+'.join(sorted(ig.feats)) or 'plain'
    tf = '+'.join(sorted(f for f in ty.features() if not f.startswith('scalar:') and not f.startswith('bitfield:'))) or 'scalar'
    key = 'C05|%s|%s' % (tf, feats)
    body = []
    if top_unknown:
        body.append('OUTV(%d, sizeof s%d);' % (k, k))
        owners.append((key + '|static', 'sizeof of unknown-bound static', init))
        # element count from sizeof: leaves enumerated with a run-time bound is awkward, dump raw bytes instead when pointer-free
        if not has_ptr(ty.elem):
            body.append('OUT(%d, &s%d, sizeof s%d);' % (k, k, k))
            owners.append((key + '|static', 'raw bytes', init))
            if not has_union(ty.elem) and not has_pad(ty.elem):
                body.append('{ %s = %s; OUTV(%d, sizeof a); OUT(%d, &a, sizeof a); }' % (decl('a'), init, k, k))
                owners += [(key + '|auto', 'sizeof of unknown-bound auto', init), (key + '|auto', 'raw bytes (no padding in type)', init)]
        fns.append('static void t%d(void) {\n%s\n}' % (k, '\n'.join(body)))
        calls.append('dirty_stack(); t%d();' % k)
        return key
    lv = []
    ctype.leaves(ty, 's%d' % k, lv, limit=80)
    ds = dump(k, lv, ty)
    body += ds
    owners += [(key + '|static', l[0], init) for l in lv]
    if isinstance(ty, Agg) and not has_ptr(ty) and not flex_init:
        body.append('OUT(%d, &s%d, sizeof s%d);' % (k, k, k))
        owners.append((key + '|static', 'raw bytes incl. zero padding', init))
    if flex_init:
        fam = ty.members[-1]
        body.append('OUT(%d, s%d.%s, %d * sizeof(s%d.%s[0]));' % (k, k, fam.name, ig.fam_n, k, fam.name))
        owners.append((key + '|static', 'flexible array member prefix', init))
    else:
        la = [(p.replace('s%d' % k, 'a', 1), s, b) for (p, s, b) in lv]
        body.append('{ %s = %s;' % (decl('a'), init))
        body += dump(k, la, ty)
        body.append('}')
        owners += [(key + '|auto', l[0], init) for l in la]
    fns.append('static void t%d(void) {\n%s\n}' % (k, '\n'.join(body)))
    calls.append('dirty_stack(); t%d();' % k)
    return key


def has_pad(ty):
    # conservative: any aggregate may have padding
    return isinstance(ty, Agg) or (isinstance(ty, Array) and has_pad(ty.elem)) or (isinstance(ty, Scalar) and ty.s == 'f80')


def addrconst_tu(rng, k0, n):
    """Address constants in static initializers: pointers into static aggregates written in every spelling (address of
    a leaf, decayed array member, member + k, &member[k], k + member, array of structs, byte offsets, pointer to pointer,
    inside a struct initializer) are dumped as offsets from the object's base, next to the same expression evaluated by
    code in an automatic initializer."""
    lines, body, owners = [PRELUDE], [], []
    k = k0
    for t in range(n):
        g = ctype.Gen(rng, bitfields=False, packed=False, max_depth=rng.choice([1, 2, 3]), max_members=rng.choice([3, 5]), flex=False, zero_width=False, unnamed_bf=False)
        ty = g.agg(0)
        tn = 'AC%d' % t
        lines.append('typedef %s %s;' % (ctype.typespec(ty), tn))
        lines.append('static %s ag%d; static %s aga%d[3];' % (tn, t, tn, t))
        lv = []
        ctype.leaves(ty, '', lv, 200)
        lv = [l for l in lv if l[2] is None]
        if not lv:
            continue
        exprs = []
        for (path, sc, _) in rng.sample(lv, min(len(lv), 6)):
            i = rng.randrange(3)
            exprs.append(('addr-of-leaf', '&ag%d%s' % (t, path)))
            exprs.append(('addr-of-leaf-in-array-of-struct', '&aga%d[%d]%s' % (t, i, path)))
            if path.endswith(']'):
                pre, idx = path[:path.rindex('[')], int(path[path.rindex('[') + 1:-1])
                exprs.append(('decayed-array-member', 'ag%d%s' % (t, pre)))
                exprs.append(('decayed-array-member+k', 'ag%d%s + %d' % (t, pre, idx)))
                exprs.append(('k+decayed-array-member', '%d + aga%d[%d]%s' % (idx, t, i, pre)))
                exprs.append(('addr-of-element-1', '&ag%d%s[%d] - 1' % (t, pre, idx + 1)))
                exprs.append(('addr-of-deref-sum', '&*(ag%d%s + %d)' % (t, pre, idx)))
            exprs.append(('byte-offset', '(char *)&ag%d + %d' % (t, rng.randrange(0, 40))))
            exprs.append(('object+1', '&aga%d[%d] + 1' % (t, i)))
            exprs.append(('cast-chain', '(long *)(void *)&ag%d%s' % (t, path)))
        for (feat, e) in exprs:
            base = 'aga%d' % t if 'aga%d' % t in e else 'ag%d' % t
            lines.append('static char *acp%d = (char *)(%s);' % (k, e))
            lines.append('static struct { char c; char *p; long n; char **pp; } acs%d = { 1, (char *)(%s), %d, &acp%d };' % (k, e, k, k))
            body.append('{ char *a = (char *)(%s); OUTV(%d, acp%d - (char *)&%s); OUTV(%d, acs%d.p - (char *)&%s); OUTV(%d, *acs%d.pp - (char *)&%s); OUTV(%d, a - (char *)&%s); }' %
                        (e, k, k, base, k, k, base, k, k, base, k, base))
            for form in ('static-pointer', 'static-struct-member', 'static-pointer-to-pointer', 'auto'):
                owners.append(('C05|address-constant|%s|%s' % (feat, form), 'address constant %s' % feat, e))
            k += 1
    fns = ['static void ac%d(void) %s' % (i, b) for i, b in enumerate(body)]
    src = '\n'.join(lines) + '\n' + '\n'.join(fns) + '\nint main(void) { %s return 0; }\n' % ' '.join('ac%d();' % i for i in range(len(body)))
    return src, owners, k


def run_tu(a):
    (idx, cc, work, src) = a
    p = os.path.join(work, 'tu%d.c' % idx)
    open(p, 'w').write(src)
    res = {k: core.build_and_run(k, cc, p, work, 'tu%d' % idx, timeout=60) for k in ('chibicc', 'gcc', 'clang')}
    os.unlink(p)
    return idx, res


def run(ctx):
    cc = ctx.build('plain')
    work = ctx.tmpdir('c05')
    rng = ctx.rng
    ctx.rule = ('case = (random object type, random valid initializer spelling); the same text initialises a static and an automatic object (stack dirtied '
                'first); every named leaf of both is dumped, plus raw bytes of pointer-free static objects; distinct = distinct (type feature set, initializer '
                'feature set) keys')
    ctx.assumptions += ['oracle: gcc -O0 == clang -O0; padding of automatic objects is never compared; flexible array members are initialised only in static objects (GNU extension)']
    ncases = ctx.scale(9000, 90000)
    per = 30
    tus = []
    k = 0
    while k < ncases:
        lines, fns, calls, owners = [PRELUDE], [], [], []
        for j in range(per):
            key = one_case(k, rng, lines, fns, calls, owners)
            ctx.saw(key)
            k += 1
        src = '\n'.join(lines) + '\n' + '\n'.join(fns) + '\nint main(void) { %s return 0; }\n' % ' '.join(calls)
        tus.append((src, owners))
    ctx.count('initializers', k)
    for i in range(ctx.scale(6, 60)):
        src, owners, k = addrconst_tu(rng, k, 12)
        for o in owners:
            ctx.saw(o[0])
        tus.append((src, owners))
    # arrays of unknown bound completed by a string literal keep their own element type (signedness, width)
    ub_src = [PRELUDE]
    ub_body = []
    ub_owners = []
    k2 = 0
    for (et, lit) in [('char', '{"abc",}'), ('unsigned char', '{"\\xfe\\x01",}'), ('unsigned short', '{u"ab",}'), ('int', '{L"xy",}'), ('char', '{"",}'), ('unsigned char', '"\\xff\\x80z"'), ('signed char', '"\\xff\\x80z"'), ('char', '"\\xff\\x80z"'), ('unsigned char', '{"\\xfe"}'), ('unsigned short', 'u"\\xffff\\x8000"'),
                      ('unsigned int', 'U"\\xffffffff"'), ('int', 'L"\\xffffffff"'), ('unsigned char', 'u8"\\xc3\\xa9"'), ('const unsigned char', '"\\377"'), ('volatile signed char', '"\\200"')]:
        for form in ('static %s ub%d[] = %s;', 'AUTO %s ub%d[] = %s;', 'static struct { int n; %s fam[]; } ub%d = {1, %s};'):
            if 'fam' in form and lit.startswith('{'):
                continue
            if lit.endswith(',}') and not form.startswith('static %s ub') and not form.startswith('AUTO'):
                continue
            d = form % (et, k2, lit)
            acc = 'ub%d.fam' % k2 if 'fam' in form else 'ub%d' % k2
            if d.startswith('AUTO'):
                ub_body.append('{ %s OUTV(%d, %s[0]); OUTV(%d, %s[0] > 0); OUTV(%d, sizeof %s); OUTV(%d, sizeof %s[0]); OUTV(%d, (typeof(%s[0]))-1 < 0); }' % (d[5:], k2, acc, k2, acc, k2, acc, k2, acc, k2, acc))
            else:
                ub_src.append(d)
                ub_body.append('OUTV(%d, %s[0]); OUTV(%d, %s[0] > 0); OUTV(%d, %s); OUTV(%d, sizeof %s[0]); OUTV(%d, (typeof(%s[0]))-1 < 0);' % (k2, acc, k2, acc, k2, '0' if 'fam' in form else 'sizeof ub%d' % k2, k2, acc, k2, acc))
            for what in ('value', 'positive', 'sizeof-object', 'sizeof-element', 'signedness'):
                ub_owners.append(('C05|unknown-bound-from-string|%s|%s' % (et.replace(' ', '-'), what), d, ''))
            k2 += 1
    tus.append(('\n'.join(ub_src) + '\nint main(void) {\n' + '\n'.join(ub_body) + '\nreturn 0; }\n', ub_owners))
    for o in ub_owners:
        ctx.saw(o[0])
    probe = PRELUDE + '''
struct P { int a, b, c; };
static int sx[2][3] = {1, 2, 3, 4, 5, 6, [0] = {7, 8}, 9, 10};
static struct { struct P m; int z; } ss = { .m = {1, 2, 3}, .m = { .a = 9 } };
int main(void) {
  OUT(0, sx, sizeof sx); OUT(1, &ss, sizeof ss);
  { int ax[2][3] = {1, 2, 3, 4, 5, 6, [0] = {7, 8}, 9, 10}; OUT(2, ax, sizeof ax); }
  { struct { struct P m; int z; } as = { .m = {1, 2, 3}, .m = { .a = 9 } }; OUT(3, &as, sizeof as); }
  return 0;
}
'''
    tus.append((probe, [('C05|probe|reinit-braced-subobject|static', 'int sx[2][3] = {1,2,3,4,5,6,[0]={7,8},9,10}', ''),
                        ('C05|probe|reinit-braced-subobject|static', '{ .m = {1,2,3}, .m = { .a = 9 } }', ''),
                        ('C05|probe|reinit-braced-subobject|auto', 'int ax[2][3] = {1,2,3,4,5,6,[0]={7,8},9,10}', ''),
                        ('C05|probe|reinit-braced-subobject|auto', '{ .m = {1,2,3}, .m = { .a = 9 } }', '')]))
    results = core.pmap(run_tu, [(i, cc, work, t[0]) for i, t in enumerate(tus)])
    amb = 0
    ref_rejects = 0
    refmsgs, refex = {}, {}
    for idx, res in results:
        src, owners = tus[idx]
        g, c, x = res['gcc'], res['clang'], res['chibicc']
        if g['stage'] != 'run' or c['stage'] != 'run' or g['rc'] != 0 or c['rc'] != 0:
            ref_rejects += 1
            import re as _re
            for l in (g['err'] + c['err']).decode('utf-8', 'replace').split('\n'):
                m = _re.search(r':(\d+):\d+: (?:fatal )?error: (.*)', l)
                if m:
                    msg = _re.sub(r"[‘'][^’']*[’']", '_', m.group(2))[:80]
                    refmsgs[msg] = refmsgs.get(msg, 0) + 1
                    sl = src.split('\n')
                    refex.setdefault(msg, sl[int(m.group(1)) - 1][:400])
            continue
        files = {'tu.c': src}
        script = ('$CHIBICC -I$VERIF/rt -c -o tu.o tu.c && gcc -o tu.exe tu.o $RT && ./tu.exe > got.txt; gcc -w -I$VERIF/rt -o ref.exe tu.c $RT && ./ref.exe > ref.txt; '
                  'cmp -s got.txt ref.txt && exit 0; diff got.txt ref.txt | head; exit 1')
        if x['stage'] != 'run' or x['rc'] != 0:
            msg = core.first_line(x['err'].decode('utf-8', 'replace'))
            ctx.violation('C05|tu|%s-fail' % x['stage'], 'chibicc failed (%s rc=%s) on a TU accepted by gcc and clang: %s' % (x['stage'], x['rc'], msg), files=files, script=script)
            continue
        lg, lc, lx = [r['out'].decode('utf-8', 'replace').split('\n')[:-1] for r in (g, c, x)]
        if len(lg) != len(owners) or len(lc) != len(owners):
            raise core.Inconclusive('reference printed %d/%d lines, expected %d' % (len(lg), len(lc), len(owners)))
        ctx.evaluations += len(owners)
        ctx.count('observations', len(owners))
        if len(lx) != len(owners):
            ctx.violation('C05|tu|output-shape', 'chibicc build printed %d lines, expected %d' % (len(lx), len(owners)), files=files, script=script)
            continue
        for ln, (key, desc, init) in enumerate(owners):
            if lg[ln] != lc[ln]:
                amb += 1
                continue
            if lx[ln] != lg[ln]:
                ctx.violation(key, '%s with initializer %s: chibicc %s, gcc = clang %s' % (desc, init[:160], lx[ln][:80], lg[ln][:80]), files=files, script=script)
    ctx.count('reference_ambiguous', amb)
    ctx.count('reference_rejected_tus', ref_rejects)
    ctx.extra['reference_reject_messages'] = sorted(refmsgs.items(), key=lambda kv: -kv[1])[:10]
    ctx.extra['reference_reject_examples'] = refex
    if ref_rejects > 0.05 * len(tus):
        ctx.note_inconclusive('%d of %d generated TUs were rejected by a reference compiler (generator produced invalid initializers)' % (ref_rejects, len(tus)))
    if amb > 0.02 * max(1, ctx.counts.get('observations', 1)):
        ctx.note_inconclusive('gcc and clang disagree on %d observations' % amb)
    ctx.sample({'tu_excerpt': tus[0][0][400:1600]})
