"""C17 - name tables behave as dictionaries under any history.

(a) hashmap.c of the tree under test #included into an ASan/UBSan harness (rt/hashmap_harness.c):
    small-scope *exhaustive* histories (3 keys on one probe path, iterative deepening to depth 7) and long
    random histories over keys that collide at every capacity; every answer is compared with a reference
    model and structural invariants are walked.
(b) end to end: #define/#undef/-D/-U histories over names that collide in the real macro table, answers read
    back through #ifdef and expansion probes in `chibicc -E` output and compared with a dict."""
import os, random, re
from lib import core

LEVEL = 'exploration'
MIN_COUNTS = {'small_scope_histories': (1000000, 1000000), 'random_ops': (2000000, 100000000), 'e2e_probes': (5000, 100000), 'same_capacity_purges': (50, 500)}


def fnv(s):
    h = 0xcbf29ce484222325
    for c in s.encode():
        h = (h * 0x100000001b3) & 0xFFFFFFFFFFFFFFFF
        h ^= c
    return h


def colliding_names(rng, n):
    """n identifiers whose FNV hashes agree in the low 12 bits -> same home slot at any capacity <= 4096."""
    target = None
    names = []
    base = rng.randrange(1000) * 1000000
    i = base
    buckets = {}
    while True:
        nm = 'M%d' % i
        b = fnv(nm) & 4095
        buckets.setdefault(b, []).append(nm)
        if len(buckets[b]) >= n:
            return buckets[b]
        i += 1


def e2e_case(args):
    idx, seed, cc, work = args
    rng = random.Random(seed * 10007 + idx)
    names = colliding_names(rng, rng.choice([4, 6, 10]))
    # names that start out defined by the compiler itself (dynamic GNU builtins and ordinary predefined macros): the table
    # must treat them like any other key.  None = "defined, value not modelled"
    builtin = rng.sample(['__COUNTER__', '__x86_64__', '__STDC_HOSTED__', '__STDC_VERSION__', '__SIZEOF_INT__', '__CHAR_BIT__' if False else '__SIZEOF_LONG__', '__linux__', '__ELF__', '__USER_LABEL_PREFIX__'
                          if False else '__LP64__'], rng.choice([0, 1, 2, 3]))
    names = names + builtin
    extra = ['Q%d' % rng.randrange(100000) for _ in range(rng.randrange(0, 30))]
    model = {b: None for b in builtin}
    cmd = []
    # command-line history
    for _ in range(rng.randrange(0, 8)):
        nm = rng.choice(names)
        r0 = rng.random()
        if r0 < 0.45:
            v = rng.randrange(1, 1000)
            cmd.append('-D%s=%d' % (nm, v))
            model[nm] = str(v)
        elif r0 < 0.6:
            # replacement lists that contain '=' themselves, the empty list, and the bare name (= 1)
            v = rng.choice(['1==1', '=', '==7', '3=4', '(2==3)', '', None, 'a=b=c'])
            if v is None:
                cmd.append('-D%s' % nm)
                model[nm] = '1'
            else:
                cmd += rng.choice([['-D%s=%s' % (nm, v)], ['-D', '%s=%s' % (nm, v)]])
                model[nm] = v
        else:
            cmd += rng.choice([['-U' + nm], ['-U', nm]])
            model.pop(nm, None)
    lines = []
    expect = []
    probe_id = 0
    # guarded headers: the compiler memoises (path -> guard macro) to skip re-reading; the memo must still be checked against the macro table
    nh = rng.choice([0, 0, 1, 2, 3])
    hdrs = []
    for h in range(nh):
        hp = os.path.join(work, 'gh%d_%d.h' % (idx, h))
        g = 'GUARD_%d_%d' % (idx, h)
        with open(hp, 'w') as f:
            f.write('#ifndef %s\n#define %s\nP0 H %d\n#endif\n' % (g, g, h))
        hdrs.append((hp, g, h))
    nops = rng.choice([10, 30, 80, 200])
    for step in range(nops):
        r = rng.random()
        nm = rng.choice(names + extra[:3]) if rng.random() < 0.9 else rng.choice(extra or names)
        if r < 0.4:
            v = rng.randrange(1000, 100000)
            if nm in model and rng.random() < 0.75:
                lines.append('#undef %s' % nm)      # otherwise: redefinition without #undef - the newest definition wins
            lines.append('#define %s %d' % (nm, v))
            model[nm] = str(v)
        elif r < 0.7:
            lines.append('#undef %s' % nm)
            model.pop(nm, None)
        elif r < 0.78 and hdrs:
            hp, g, h = rng.choice(hdrs)
            act = rng.random()
            if act < 0.5:
                lines.append('#include "%s"' % hp)
                if g not in model:
                    expect.append('P0 H %d' % h)
                    model[g] = ''
            elif act < 0.8:
                lines.append('#undef %s' % g)
                model.pop(g, None)
            else:
                if g in model:
                    lines.append('#undef %s' % g)
                lines.append('#define %s 1' % g)
                model[g] = '1'
        elif r < 0.8 and extra:
            # table growth: define a burst of unrelated names
            for e in extra:
                if e not in model:
                    lines.append('#define %s 7' % e)
                    model[e] = '7'
        # probe after every operation
        q = rng.choice(names)
        probe_id += 1
        lines += ['#ifdef %s' % q, 'P%d D %s' % (probe_id, q), '#else', 'P%d U' % probe_id, '#endif']
        expect.append(('P%d D %s' % (probe_id, model[q]) if model[q] is not None else 'P%d D *' % probe_id) if q in model else 'P%d U' % probe_id)
    # final sweep
    for q in names:
        probe_id += 1
        lines += ['#ifdef %s' % q, 'P%d D %s' % (probe_id, q), '#else', 'P%d U' % probe_id, '#endif']
        expect.append(('P%d D %s' % (probe_id, model[q]) if model[q] is not None else 'P%d D *' % probe_id) if q in model else 'P%d U' % probe_id)
    src = '\n'.join(lines) + '\n'
    path = os.path.join(work, 'h%d.c' % idx)
    with open(path, 'w') as f:
        f.write(src)
    rc, o, e = core.sh([cc, '-E', path] + cmd, env=core.SAN_ENV, timeout=60)
    for f in [path] + [h[0] for h in hdrs]:
        try:
            os.unlink(f)
        except OSError:
            pass
    def norm(l):
        p = l.strip().split(None, 2)
        return ' '.join(p[:2] + [''.join(p[2].split())] if len(p) > 2 else p)
    # the -E printer may break a line in front of a token produced by a dynamic macro: records are delimited by the P<n> markers
    text = ' '.join(o.decode('utf-8', 'replace').split())
    got = [norm(x) for x in re.split(r'(?=\bP\d+ [DUH]\b)', text) if x.strip()]
    expect = [norm(l) for l in expect]
    got = [g if not (i < len(expect) and expect[i].endswith(' D *') and g.startswith(expect[i][:-2])) else expect[i] for i, g in enumerate(got)]
    ok = (rc == 0 and got == expect)
    detail = ''
    if not ok:
        if rc != 0:
            detail = 'exit %s: %s' % (rc, core.first_line(e.decode('utf-8', 'replace')))
        else:
            for a, b in zip(got + ['<eof>'] * len(expect), expect + ['<eof>']):
                if a != b:
                    detail = 'got "%s" expected "%s"' % (a, b)
                    break
    return ok, probe_id, nops, len(names), src, cmd, detail, rc


def run(ctx):
    snap = ctx.snapshot()
    work = ctx.tmpdir('c17')
    ctx.rule = ('small scope: every history of put/get/delete over 3 keys (5 slot layouts, iterative deepening to length 7/6), '
                'answers of all keys + structural invariants after each step; random: long histories over keys colliding at '
                'every capacity; e2e: #define/#undef/-D/-U histories probed with #ifdef through chibicc -E. distinct = distinct '
                '(mode, layout/seed) runs + distinct e2e histories')
    ctx.assumptions += ['reference model: last write wins, deleted means absent (arrays in the harness, dict in Python)',
                        'hashmap.c is exercised through its public functions only; statics are read, never written, by the monitor']
    hh = os.path.join(work, 'hh')
    rc, o, e = core.sh(['gcc', '-O1', '-g', '-fsanitize=address,undefined', '-fno-sanitize-recover=all', '-I' + snap,
                        '-DHASHMAP_C="%s"' % os.path.join(snap, 'hashmap.c'),
                        os.path.join(core.VERIF, 'rt', 'hashmap_harness.c'), '-o', hh])
    if rc != 0:
        raise core.Inconclusive('hashmap harness does not build: ' + e.decode()[-800:])
    env = {'ASAN_OPTIONS': 'detect_leaks=0:abort_on_error=0:exitcode=77', 'UBSAN_OPTIONS': 'print_stacktrace=1:exitcode=77'}
    jobs = [('small', ['small', '7'])]
    nrand = ctx.scale(15, 150)
    ops = ctx.scale(400000, 2000000)
    for i in range(nrand):
        s = ctx.seed * 131 + i
        jobs.append(('random', ['random', str(s), str(ops), str(4 + (i * 13) % 197)]))
    for i in range(ctx.scale(12, 100)):
        jobs.append(('churn', ['churn', str(ctx.seed * 17 + i), str([5, 10, 20, 40, 100, 300][i % 6]), str(ctx.scale(20000, 200000))]))

    def runjob(j):
        return j, core.sh([hh] + j[1], env=env, timeout=3000)
    for j, (rc, o, e) in core.tmap(runjob, jobs):
        out = o.decode('utf-8', 'replace')
        errt = e.decode('utf-8', 'replace')
        st = re.search(r'STATS (.*)', out)
        stats = dict(kv.split('=') for kv in st.group(1).split()) if st else {}
        if j[0] == 'small':
            ctx.count('small_scope_histories', int(stats.get('histories', 0)))
            ctx.evaluations += int(stats.get('histories', 0))
            ctx.extra['exhaustive_subspaces'] = ['all put/get/delete histories of length <= 7 over 3 keys sharing one probe path '
                                                 '(and length <= 6 for 4 other slot layouts incl. wrap-around)']
        elif j[0] == 'churn':
            ctx.count('churn_pairs', int(stats.get('pairs', 0)))
            ctx.count('same_capacity_purges', int(stats.get('same_capacity_purges', 0)))
            ctx.evaluations += int(stats.get('pairs', 0))
        else:
            ctx.count('random_ops', int(stats.get('ops', 0)))
            ctx.count('random_rehashes', int(stats.get('rehashes', 0)))
            ctx.evaluations += int(stats.get('ops', 0))
        ctx.count('invariant_walks', int(stats.get('invariant_checks', 0)))
        ctx.saw('%s:%s' % (j[0], ' '.join(j[1][1:])))
        viol = [l for l in out.split('\n') if l.startswith('VIOLATION')]
        if 'AddressSanitizer' in errt or 'runtime error' in errt:
            viol.append('VIOLATION sanitizer ' + core.first_line(errt))
        if rc == 'timeout':
            ctx.note_inconclusive('hashmap harness timed out: %s' % (j[1],))
            continue
        if not st and not viol:
            ctx.note_inconclusive('hashmap harness gave no STATS line (rc=%s): %s' % (rc, errt[-300:]))
        for v in viol:
            m = re.match(r'VIOLATION (\w+) (.*)', v)
            kind, rest = m.group(1), m.group(2)
            if kind == 'api' and 'after:' in rest:
                key = 'C17|api|' + rest.split('after:')[1].strip()
            elif kind == 'invariant':
                key = 'C17|invariant|' + rest.split()[0]
            elif kind == 'abort':
                key = 'C17|abort|' + rest.split('(')[0][:40]
            elif kind == 'sanitizer':
                key = 'C17|sanitizer|' + core.san_frames(errt)
            else:
                key = 'C17|api|random-history'
            ctx.violation(key, v + ' [harness args: %s]' % ' '.join(j[1]),
                          files={'harness_args.txt': ' '.join(j[1]) + '\n'},
                          script='gcc -O1 -g -fsanitize=address,undefined -I$(dirname $CHIBICC) -DHASHMAP_C="\\"$(dirname $CHIBICC)/hashmap.c\\"" '
                                 '$VERIF/rt/hashmap_harness.c -o /tmp/hh_replay && ASAN_OPTIONS=detect_leaks=0 /tmp/hh_replay $(cat harness_args.txt) | grep -q VIOLATION && exit 1; exit 0')
    # ---- end to end ---------------------------------------------------------
    cc = ctx.build('san')
    n = ctx.scale(400, 8000)
    res = core.pmap(e2e_case, [(i, ctx.seed, cc, work) for i in range(n)], chunksize=8)
    for i, (ok, probes, nops, nnames, src, cmd, detail, rc) in enumerate(res):
        ctx.evaluations += 1
        ctx.count('e2e_histories')
        ctx.count('e2e_probes', probes)
        ctx.saw('e2e:%s' % core.sha(src + ' '.join(cmd)))
        if i == 0:
            ctx.sample({'e2e_history': src[:600], 'cmdline': cmd})
        if not ok:
            ctx.violation('C17|e2e|macro-table|' + ('abort' if rc != 0 else 'wrong-answer'), detail,
                          files={'history.c': src, 'cmdline.txt': ' '.join(cmd) + '\n'},
                          script='$CHIBICC -E history.c $(cat cmdline.txt) > out.txt; echo "compare out.txt with the dict model (see replay.json what)"; exit 1')
    ctx.sample({'small_scope': 'iterative deepening over ops {put,get,del} x keys {a,b,c} with equal home slot'})
