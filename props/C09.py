"""C09 - macro expansion follows C11 6.10.3 and terminates.

Workload: random macro sets over a small alphabet (object-like / function-like, self and mutual recursion, # and ## with every
empty/non-empty operand combination, variadics with __VA_ARGS__, named variadics, __VA_OPT__ and `, ## __VA_ARGS__`, nested
invocations in arguments, parentheses and commas inside arguments, invocations split over lines, function-like names
without `(`, redefinition / #undef between uses, __COUNTER__).
Monitor: `chibicc -E` (ASan/UBSan build) vs `gcc -E` == `clang -E`, both re-lexed by one pp-tokenizer and compared token
by token; watchdog for termination (re-run protocol).  Cases the references reject or disagree on are discarded."""
import os, re, random
from lib import core, pptok

LEVEL = 'exploration'
MIN_COUNTS = {'compared': (2500, 60000)}

OBJ = ['A', 'B', 'C']
FUN = ['F', 'G', 'H']
IDS = ['p', 'q']
PUNCT = ['+', '-', '(', ')', ',', ';', '*', '<', '[', ']', '.']


class MG:
    def __init__(self, rng, open_feats):
        self.rng = rng
        self.feats = set()
        self.open = open_feats
        self.defs = {}     # name -> ('obj'|'fun', params, variadic)

    def tok(self, params=(), in_body=True, allow_macro=True):
        r = self.rng
        x = r.random()
        if params and x < 0.35:
            return r.choice(params)
        if allow_macro and x < 0.55:
            return r.choice(OBJ + FUN)
        if x < 0.65:
            return r.choice(IDS)
        if x < 0.78:
            return r.choice(['1', '2', '0x1f', '1.5e+3', '12L'])
        if x < 0.83:
            return r.choice(['"s"', "'c'", '"a b"'])
        return r.choice(PUNCT)

    def atom(self):
        t = self.tok()
        return 'p' if t in (',', '(', ')') else t

    def balanced(self, toks):
        out, depth = [], 0
        for t in toks:
            if t == '(':
                depth += 1
            elif t == ')':
                if depth == 0:
                    continue
                depth -= 1
            out.append(t)
        out += [')'] * depth
        return out

    def body(self, params, variadic, vname, funlike):
        r = self.rng
        n = r.randrange(0, 7)
        out = []
        i = 0
        while i < n:
            x = r.random()
            if funlike and params and x < 0.12:
                self.feats.add('stringize')
                out += ['#', r.choice(params + ([vname] if variadic else []))]
            elif x < 0.3 and (not funlike and 'paste-objlike' not in self.open or funlike):
                a = r.choice(params) if (params and r.random() < 0.7) else r.choice(IDS + ['1', 'x'])
                b = r.choice(params) if (params and r.random() < 0.7) else r.choice(IDS + ['2', 'y'])
                self.feats.add('paste' if funlike else 'paste-objlike')
                out += [a, '##', b]
                if r.random() < 0.25 and 'paste-chain' not in self.open:
                    c = r.choice(params) if (params and r.random() < 0.7) else r.choice(IDS)
                    out += ['##', c]
                    self.feats.add('paste-chain')
            elif funlike and variadic and x < 0.45:
                y = r.random()
                if y < 0.4:
                    out.append(vname)
                    self.feats.add('va_args')
                elif y < 0.7 and vname == '__VA_ARGS__':
                    self.feats.add('va_opt')
                    out += ['__VA_OPT__', '('] + [self.tok(params + [vname]) for _ in range(r.randrange(0, 3))] + [')']
                else:
                    self.feats.add('gnu-comma-paste')
                    out += [r.choice(IDS), ',', '##', vname]
            else:
                out.append(self.tok(params))
            i += 1
        out = self.balanced(out)
        # a function-like macro name at the end of a replacement list could pick up its arguments from outside the expansion:
        # C11 6.10.3.4p4 leaves that unspecified, so it is never generated
        if out and out[-1] in FUN:
            out.append('p')
        for i in range(len(out) - 1):
            if out[i] in FUN and out[i + 1] == ')':
                out[i] = 'q'
        return out

    def define(self, name):
        r = self.rng
        if name in OBJ:
            b = self.body([], False, None, False)
            # an object-like body must not start with '(' glued to the name
            self.defs[name] = ('obj', [], False)
            return '#define %s %s' % (name, ' '.join(b))
        np = r.choice([0, 1, 1, 2, 2, 3])
        params = ['x', 'y', 'z'][:np]
        variadic = r.random() < 0.3
        vname = '__VA_ARGS__'
        plist = list(params)
        if variadic:
            if r.random() < 0.25:
                vname = 'rest'
                plist.append('rest...')
                self.feats.add('named-variadic')
            else:
                plist.append('...')
        b = self.body(params, variadic, vname, True)
        self.defs[name] = ('fun', params, variadic)
        return '#define %s(%s) %s' % (name, ', '.join(plist), ' '.join(b))

    def arg(self, d):
        r = self.rng
        n = r.choice([0, 1, 1, 2, 3])
        if n == 0:
            self.feats.add('empty-arg')
        toks = []
        for _ in range(n):
            x = r.random()
            if x < 0.25 and d > 0:
                toks += self.invoke(d - 1).split(' ')
            elif x < 0.35:
                toks += ['(', self.atom(), ',', self.atom(), ')']
                self.feats.add('comma-in-parens')
            else:
                t = self.tok()
                if t in (',', '(', ')'):
                    t = 'p'
                toks.append(t)
        return ' '.join(toks)

    def invoke(self, d):
        r = self.rng
        name = r.choice(list(self.defs) or ['A'])
        kind, params, variadic = self.defs.get(name, ('obj', [], False))
        if kind == 'obj':
            return name
        if r.random() < 0.1:
            self.feats.add('funlike-without-parens')
            return name + ' ' + r.choice(IDS + [';'])
        nargs = len(params)
        if variadic:
            nargs += r.choice([0, 0, 1, 2, 3])
        elif nargs == 0:
            return name + '()' if r.random() < 0.8 else name + ' ( )'
        args = [self.arg(d) for _ in range(max(nargs, 1 if params else 0))]
        if not params and variadic and nargs == 0:
            args = []
        sep = ', '
        text = '%s(%s)' % (name, sep.join(args))
        if r.random() < 0.15:
            self.feats.add('multi-line-invocation')
            text = text.replace('(', '(\n', 1).replace(', ', ',\n', 1)
        return text


def gen_case(rng, open_feats):
    g = MG(rng, open_feats)
    lines = []
    names = rng.sample(OBJ + FUN, rng.randrange(2, 6))
    for nm in names:
        lines.append(g.define(nm))
    for _ in range(rng.randrange(2, 7)):
        x = rng.random()
        if x < 0.1 and g.defs:
            nm = rng.choice(list(g.defs))
            lines.append('#undef ' + nm)
            del g.defs[nm]
            g.feats.add('undef')
        elif x < 0.2:
            nm = rng.choice(OBJ + FUN)
            if nm in g.defs:
                lines.append('#undef ' + nm)
            lines.append(g.define(nm))
            g.feats.add('redefine')
        elif x < 0.25:
            lines.append('__COUNTER__ __COUNTER__ %s' % g.invoke(1))
            g.feats.add('counter')
        else:
            lines.append('> ' + ' '.join(g.invoke(2) for _ in range(rng.randrange(1, 4))) + ' <')
    return '\n'.join(lines) + '\n', g.feats


def structured_cases(rng, n):
    """Well-defined idioms with a grid or a randomised shape each (single feature per case):
    - paste chains a##b##...: every emptiness pattern of 2..6 operands, with and without neighbours;
    - hide sets where the macro name and its closing parenthesis carry different histories (name produced by an argument
      that was itself macro-expanded) - the result must still expand names that are no longer being replaced;
    - dynamic macros (__LINE__, __COUNTER__, __FILE__) reached through several macro levels and arguments;
    - recursion guards: self-reference, mutual recursion, painted tokens passed on as arguments."""
    out = []
    import itertools
    for nops in range(2, 7):
        for pat in itertools.product([0, 1], repeat=nops):
            if nops >= 5 and rng.random() < 0.5:
                continue
            ps = [chr(97 + i) for i in range(nops)]
            args = ','.join(('t%d' % i if pat[i] else '') for i in range(nops))
            body = '##'.join(ps)
            pre, post = rng.choice([('', ''), ('x ', ''), ('', ' y'), ('[', ']'), ('x ', ' y')])
            src = '#define P(%s) %s%s%s\n> P(%s) <\n#define Q(%s) %s %s ## %s %s\n> Q(%s) <\n' % (','.join(ps), pre, body, post, args, ','.join(ps), pre, ' ## '.join(ps[:-1]), ps[-1], post, args)
            out.append((src, {'struct:paste-chain-%d-operands' % nops}))
    # what follows the macro name decides between object-like and function-like: only a "(" on the same line without white space
    for body in ['(y) z', '(x)', '( a , b ) c', '()', '(y) z (w)']:
        for sep in ['\n', ' ', '\t', ' /**/ ', '/**/', '\\\n', ' \\\n', '']:
            out.append(('#define X%s%s\n> X(1) X (2) X <\n#define Y%s%s\n> Y(3) <\n' % (sep, body, sep, body.replace('y', 'q').replace('x', 'q')), {'struct:define-name-then-paren'}))
    # only parentheses nest inside macro arguments: commas inside braces, brackets and angle brackets separate arguments
    for (o, c) in [('{', '}'), ('[', ']'), ('<', '>'), ('(', ')'), ('{(', ')}'), ('({', '})'), ('"', '"'), ("'", "'")]:
        inner = 'p, q' if o not in ('"', "'") else (',' if o == "'" else 'p, q')
        out.append(('#define FIRST(x, ...) x\n#define REST(x, ...) [__VA_ARGS__]\n#define SECOND(x, y, ...) y\n#define CNT(...) N(__VA_ARGS__, 4, 3, 2, 1)\n#define N(a, b, c, d, n, ...) n\n'
                    '> FIRST(%s%s%s, 3) | REST(%s%s%s, 3) | SECOND(%s%s%s, 3, 4) | CNT(%s%s%s) <\n' % ((o, inner, c) * 4), {'struct:argument-nesting'}))
    # parameter names of which another identifier in the body (or another parameter) is a proper prefix or extension
    for (params, body, call) in [('integer', 'int integer = 0 ; inte integerx', 'n'), ('value, v', '((value) * v) val values v', '2, 3'), ('str, s', '#s #str s##str str##s st', 'p, q'),
                                 ('ab, a, abc', 'a ab abc a##ab abcd b', '1, 2, 3'), ('x, xx, xxx', 'xxx xx x x##xx #xx', 'r, s, t'), ('done, do', 'do done don dones', 'u, v'),
                                 ('_, __, _1', '_ __ _1 ___ _1_', 'a, b, c')]:
        out.append(('#define PM(%s) [%s]\n> PM(%s) <\n' % (params, body, call), {'struct:parameter-name-prefixes'}))
    # a # that comes out of a macro expansion at the start of a line is not a directive
    for body in ['define WIDTH 8', 'undef KEEP', 'if 0', 'include "nonexistent.h"', 'error no', 'pragma once', 'line 99', '']:
        out.append(('#define HASH #\n#define ID(x) x\n#define KEEP 5\n#define EMPTY\nHASH %s\n> WIDTH KEEP <\nID(#) %s\nEMPTY HASH %s\n> WIDTH KEEP <\n' % (body, body, body), {'struct:hash-from-expansion-at-line-start'}))
    names = ['ID', 'APPLY', 'B', 'CALL', 'WRAP', 'F', 'G', 'H']
    for i in range(n):
        r = rng.random()
        d = rng.randrange(1, 4)
        wrap = lambda t: 'ID(' * d + t + ')' * d
        if r < 0.3:
            body = rng.choice(['ID(y) + ID(2)', 'ID(ID(y))', 'WRAP(y) ID(y)', 'ID (y) APPLY(ID)'])
            src = ('#define ID(x) x\n#define WRAP(x) [ID(x)]\n#define APPLY(m) m(1)\n#define APPLY2(m, v) m(v) m (v)\n#define B(y) %s\n> APPLY(%s) <\n> APPLY2(%s, ID(7)) <\n> APPLY(ID) <\n' %
                   (body, wrap('B'), wrap('B')))
            out.append((src, {'struct:hideset-name-from-expanded-argument'}))
        elif r < 0.5:
            src = ('#define ID(x) x\n#define HERE __LINE__\n#define WHERE() HERE\n#define AT(x) x:WHERE():HERE:__LINE__\n#define CNT __COUNTER__\n#define C2() CNT CNT\n' +
                   '\n' * rng.randrange(0, 5) + '> HERE WHERE() AT(q) %s <\n' % wrap('WHERE()') + '\n' * rng.randrange(0, 3) +
                   '> C2() CNT %s __COUNTER__ <\n> AT(HERE) AT(WHERE()) <\n' % wrap('CNT'))
            out.append((src, {'struct:dynamic-macro-through-levels'}))
        elif r < 0.75:
            src = ('#define ID(x) x\n#define F(x) x G(x) F(x)\n#define G(x) [x F(x) G(x)]\n#define OBJ OBJ + F\n#define OBJ2 OBJ3 F\n#define OBJ3 OBJ2 G\n' +
                   '> F(1) G(2) OBJ OBJ2 OBJ3 <\n> %s %s <\n> F(F(3)) G(OBJ) F(OBJ2) <\n' % (wrap('F(4)'), wrap('OBJ')))
            out.append((src, {'struct:recursion-guards'}))
        else:
            k = rng.randrange(1, 5)
            src = ('#define ID(x) x\n#define EMPTY\n#define DEFER(m) m EMPTY\n#define EVAL(x) x\n#define A(x) x B\n#define B(x) A\n' +
                   '> DEFER(ID)(1) EVAL(DEFER(ID)(2)) <\n> %s <\n> A(1)(2)(3) <\n' % ('EVAL(' * k + 'DEFER(ID)(%d)' % k + ')' * k))
            out.append((src, {'struct:deferred-invocation'}))
    return out


def run_case(a):
    (idx, cc, work, src) = a
    p = os.path.join(work, 'm%d.c' % idx)
    open(p, 'w').write(src)
    res = {}
    rc, o, e = core.sh(['gcc', '-E', '-P', '-std=gnu11', '-w', p], timeout=20)
    res['gcc'] = (rc, o, e[-300:])
    rc, o, e = core.sh(['clang', '-E', '-P', '-std=gnu11', '-w', p], timeout=20)
    res['clang'] = (rc, o, e[-300:])
    rc, o, e = core.sh([cc, '-E', p], env=core.SAN_ENV, timeout=20)
    res['chibicc'] = (rc, o, e[-600:])
    os.unlink(p)
    return idx, res


def toks(b):
    return pptok.spellings(b.decode('utf-8', 'replace'))


def run(ctx):
    cc = ctx.build('san')
    plain = None
    work = ctx.tmpdir('c09')
    rng = ctx.rng
    open_feats = {k.split('|')[2] for k in ctx.open_features() if k.startswith('C09|probe|')}
    ctx.rule = ('case = random macro definition set + invocation lines; chibicc -E output re-lexed and compared token by token with gcc -E == clang -E; '
                'cases rejected by a reference or on which the references differ are discarded; distinct = distinct feature sets + distinct cases')
    ctx.assumptions += ['oracle: gcc -E -P == clang -E -P token sequences (white space is not compared here, see C19)', 'watchdog 20 s, re-run once on the plain build before reporting a hang']
    n = ctx.scale(5000, 120000)
    cases = [gen_case(rng, open_feats) for _ in range(n)]
    # dedicated probes (single feature each)
    probes = [
        ('paste-chain-placemarker', '#define T(x, y, z) [x ## y ## z]\n> T(,,) T(a,,) T(,b,) T(,,c) T(a,,c) <\n'),
        ('paste-objlike', '#define B 1 ## y\n#define C p ## q ## r\n> B C <\n'),
    ]
    for name, src in probes:
        cases.append((src, {'probe:' + name}))
    cases += structured_cases(rng, ctx.scale(120, 2000))
    results = core.pmap(run_case, [(i, cc, work, c[0]) for i, c in enumerate(cases)], chunksize=16)
    for idx, res in results:
        src, feats = cases[idx]
        ctx.evaluations += 1
        g, c, x = res['gcc'], res['clang'], res['chibicc']
        probe = [f for f in feats if f.startswith('probe:')]
        if g[0] != 0 or c[0] != 0:
            ctx.count('discarded_reference_rejects')
            continue
        tg, tc = toks(g[1]), toks(c[1])
        if tg != tc:
            ctx.count('discarded_reference_ambiguous')
            continue
        ctx.count('compared')
        ctx.count('tokens_compared', len(tg))
        fkey = '+'.join(sorted(feats)) or 'plain'
        ctx.saw(fkey)
        files = {'case.c': src}
        script = '$CHIBICC -E case.c > got.txt; rc=$?; gcc -E -P -w case.c > ref.txt; echo "exit $rc; compare got.txt and ref.txt token-wise"; python3 -c "import sys; sys.path.insert(0, \'$VERIF\'); from lib import pptok; a=pptok.spellings(open(\'got.txt\').read()); b=pptok.spellings(open(\'ref.txt\').read()); sys.exit(0 if a==b else 1)"'
        pk = ('C09|probe|%s' % probe[0][6:]) if probe else None
        if x[0] == 'timeout':
            if plain is None:
                plain = ctx.build('plain')
            p = os.path.join(work, 'hang.c')
            open(p, 'w').write(src)
            rc, o, e = core.sh([plain, '-E', p], timeout=30)
            if rc == 'timeout':
                ctx.violation(pk or ('C09|%s|hang' % fkey), 'macro expansion does not terminate within 30 s', files=files, script=script)
            else:
                ctx.count('timeout-not-reproduced')
            continue
        et = x[2].decode('utf-8', 'replace')
        if 'AddressSanitizer' in et or 'runtime error' in et or (isinstance(x[0], int) and x[0] < 0):
            ctx.violation(pk or ('C09|%s|crash|%s' % (fkey, core.san_frames(et))), 'preprocessor crashed: ' + core.first_line(et), files=files, script=script)
            continue
        if x[0] != 0:
            ctx.violation(pk or ('C09|%s|rejects-valid' % fkey), 'rejected although gcc and clang accept: ' + core.first_line(et)[:200] + ' | ' + et.split('\n')[1][:100] if '\n' in et else '', files=files, script=script)
            continue
        tx = toks(x[1])
        if tx != tg:
            k = next((i for i in range(min(len(tx), len(tg))) if tx[i] != tg[i]), min(len(tx), len(tg)))
            ctx.violation(pk or ('C09|%s|tokens' % fkey), 'token %d: chibicc ...%s, gcc = clang ...%s' % (k, ' '.join(tx[max(0, k - 3):k + 4]), ' '.join(tg[max(0, k - 3):k + 4])), files=files, script=script)
    ctx.sample({'case': cases[0][0]})
    ctx.sample({'case': cases[7][0]})
    disc = ctx.counts.get('discarded_reference_rejects', 0) + ctx.counts.get('discarded_reference_ambiguous', 0)
    ctx.extra['discarded_fraction'] = round(disc / max(1, n), 3)
