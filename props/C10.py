"""C10 - conditional inclusion and #include resolution select exactly the right text.

(A) conditional nestings to depth 5: #if expressions in intmax_t/uintmax_t (defined, undefined identifiers, values near
    2^31 / 2^63, unsigned wrap), every #elif/#else chain x which branch is true, directives and garbage inside skipped groups,
    trailing tokens after #else/#endif/#ifdef X.  Every group carries a unique marker token.
(B) include graphs over generated directory trees: same-named headers in the includer's directory, several -I, -idirafter;
    "" vs <> vs macro-expanded names; #include_next chains; guarded / guarded-looking headers (text after #endif, #else branch,
    guard #undef'ed and re-included), #pragma once; -include, -D, -U in all orders.
Oracle: `chibicc -E` tokens == `gcc -E` == `clang -E` tokens (markers make the diff name the group or file)."""
import os, re, random, shutil
from lib import core, pptok, cint

LEVEL = 'exploration'
MIN_COUNTS = {'cond_compared': (1500, 30000), 'incl_compared': (500, 10000)}


# ---------------------------------------------------------------- (A) conditionals
def pp_expr(rng, depth, macros):
    """Random #if expression with its value by the intmax model; returns (text, value) or None if undefined."""
    def leafs():
        r = rng.random()
        if r < 0.15:
            nm = rng.choice(['DEF1', 'DEF0', 'UNDEF', 'DEFBIG'])
            v = {'DEF1': 1, 'DEF0': 0, 'UNDEF': 0, 'DEFBIG': 4294967296}[nm]
            return cint.leaf(nm, 'i64', v)
        if r < 0.3:
            nm = rng.choice(['DEF1', 'DEF0', 'UNDEF', 'DEFBIG'])
            form = rng.choice(['defined(%s)', 'defined %s', '!defined(%s)'])
            d = nm != 'UNDEF'
            return cint.leaf(form % nm, 'i64', int(d if not form.startswith('!') else not d))
        if r < 0.4:
            c = rng.choice(["'a'", "'\\0'", "'\\n'", "'z'"])
            return cint.leaf(c, 'i64', {"'a'": 97, "'\\0'": 0, "'\\n'": 10, "'z'": 122}[c])
        mag = rng.choice([0, 1, 2, 3, 7, 255, 2147483647, 2147483648, 4294967295, 4294967296, 9223372036854775807, rng.randrange(0, 1 << rng.choice([4, 16, 31, 33, 62]))])
        u = rng.random() < 0.3
        suf = rng.choice(['u', 'U', 'ul', 'ULL']) if u else rng.choice(['', '', 'L', 'll'])
        base = rng.choice(['d', 'x', 'o'])
        if not u and base != 'd' and mag > (1 << 63) - 1:
            u = True
        txt = {'d': '%d', 'x': '0x%x', 'o': '0%o'}[base] % mag if not (base == 'o' and mag == 0) else '0'
        return cint.leaf(txt + suf, 'u64' if u else 'i64', mag)

    def tree(d):
        r = rng.random()
        if d <= 0 or r < 0.25:
            return leafs()
        if r < 0.4:
            return ('un', rng.choice(['-', '~', '!', '+']), tree(d - 1))
        if r < 0.5:
            return ('cond', tree(d - 1), tree(d - 1), tree(d - 1))
        if r < 0.6:
            return (rng.choice(['land', 'lor']), tree(d - 1), tree(d - 1))
        op = rng.choice(cint.BINOPS)
        b = tree(d - 1)
        if op in ('<<', '>>'):
            b = ('bin', '&', b, cint.leaf('63', 'i64', 63))
        return ('bin', op, tree(d - 1), b)
    for _ in range(20):
        e = tree(depth)
        try:
            t, v = cint.ev(e)
        except cint.Undefined:
            continue
        return cint.render(e), v
    return '1', 1


GARBAGE = ['@@ $ `', '#define BROKEN(', '#include <nonexistent.h>', '#error never', '#if', '#else', '1 +* ) (', '#unknown directive', 'int x = ;', '#line 0x',
           "isn't this fine", 'a "unterminated', '#elif 1', '#endif', '# 7 "x.c"', '#pragma once']


class CG:
    def __init__(self, rng):
        self.rng = rng
        self.n = 0
        self.feats = set()

    def marker(self):
        self.n += 1
        return 'G%d' % self.n

    def skipped_body(self):
        """Lines that must have no effect (inside a group known to be skipped): balanced conditionals with garbage."""
        r = self.rng
        out = []
        for _ in range(r.randrange(0, 3)):
            g = r.choice(GARBAGE)
            if g in ('#else', '#elif 1', '#endif', '#if'):
                # directive names that would close/alter the enclosing group are only used nested
                out += ['#if 0', 'X', g if g != '#endif' and g != '#if' else 'Y', '#endif']
                self.feats.add('nested-conditional-in-skipped-group')
            else:
                out.append(g)
                self.feats.add('garbage-in-skipped-group' if not g.startswith('#') else 'directive-in-skipped-group')
        return out

    def group(self, d, live):
        """Emit a conditional construct at nesting depth d. `live` says whether the enclosing group is processed."""
        r = self.rng
        lines = []
        kind = r.choice(['if', 'if', 'ifdef', 'ifndef'])
        nb = r.randrange(1, 5)            # number of branches incl. else
        has_else = r.random() < 0.6
        trail = lambda: (' ' + r.choice(['X', '/* c */', 'junk tokens', '// c'])) if r.random() < 0.2 else ''
        taken = False
        for b in range(nb):
            if b == 0:
                if kind == 'if':
                    txt, v = pp_expr(r, r.randrange(0, 4), None)
                    lines.append('#if ' + txt)
                    self.feats.add('if-arith')
                else:
                    nm = r.choice(['DEF1', 'DEF0', 'UNDEF'])
                    t = trail()
                    if t.strip() and not t.strip().startswith('/'):
                        self.feats.add('trailing-tokens-after-ifdef')
                    lines.append('#%s %s%s' % (kind, nm, t))
                    v = (nm != 'UNDEF') if kind == 'ifdef' else (nm == 'UNDEF')
            elif b == nb - 1 and has_else:
                t = trail()
                if t.strip() and not t.strip().startswith('/'):
                    self.feats.add('trailing-tokens-after-else')
                lines.append('#else' + t)
                v = True
            else:
                txt, v = pp_expr(r, r.randrange(0, 3), None)
                if (taken or not live) and r.random() < 0.3:
                    # not evaluated once an earlier group of the chain was taken (or inside a skipped group): may be anything
                    txt, v = r.choice(['1/0', 'NOT_A_MACRO(3)', '(', '1 +', '2 % (1 - 1)', '__COUNTER__ + 1 +', 'defined', '0x', "'", '1 ? 2']), 0
                    self.feats.add('unevaluable-elif-after-taken-branch')
                lines.append('#elif ' + txt)
                self.feats.add('elif')
                if taken:
                    self.feats.add('elif-after-taken-branch')
            this_live = live and not taken and bool(v)
            lines.append(self.marker())
            if not this_live and r.random() < 0.5:
                lines += self.skipped_body()
            if d < 4 and r.random() < 0.4:
                lines += self.group(d + 1, this_live)
            if d < 4 and r.random() < 0.15:
                lines += ['#define LOCAL%d 1' % self.n, '#ifdef LOCAL%d' % self.n, self.marker(), '#endif', '#undef LOCAL%d' % self.n]
                self.feats.add('define-inside-group')
            lines.append(self.marker())
            if v:
                taken = True
        t = trail()
        if t.strip() and not t.strip().startswith('/'):
            self.feats.add('trailing-tokens-after-endif')
        lines.append('#endif' + t)
        return lines


def cond_case(rng):
    g = CG(rng)
    lines = ['#define DEF1 1', '#define DEF0 0', '#define DEFBIG 4294967296', 'START']
    for _ in range(rng.randrange(1, 4)):
        lines += g.group(0, True)
        lines.append(g.marker())
    return '\n'.join(lines) + '\nEND\n', g.feats


# ---------------------------------------------------------------- (B) include graphs
def incl_case(rng, root):
    """Creates a directory tree under root; returns (main file, option list, feature set)."""
    feats = set()
    dirs = ['src', 'inc1', 'inc2', 'after']
    for d in dirs:
        os.makedirs(os.path.join(root, d))
    names = ['a.h', 'b.h', 'c.h']
    uid = [0]

    def mark(where):
        uid[0] += 1
        return 'F_%s_%d' % (where.replace('.', '_').replace('/', '_'), uid[0])
    content = {}
    for d in dirs:
        for nm in names:
            if rng.random() < 0.65 or d == 'after':
                lines = []
                style = rng.choice(['plain', 'guard', 'guard', 'pragma-once', 'guard-trailing-text', 'guard-else', 'guard-elif', 'guard-inner-cond', 'guard-undef', 'guard-not-first', 'pragma-once-after-line'])
                gname = 'G_%s_%s' % (d.upper(), nm.replace('.', '_').upper())
                body = [mark('%s/%s' % (d, nm))]
                if rng.random() < 0.35:
                    other = rng.choice(names)
                    form = rng.choice(['"%s"', '<%s>', 'next'])
                    if form == 'next':
                        body.append('#include_next <%s>' % nm)
                        feats.add('include_next')
                    else:
                        body.append('#include ' + form % other)
                        feats.add('nested-include-' + ('quote' if form[0] == '"' else 'angle'))
                body.append(mark('%s/%s' % (d, nm)))
                if style == 'plain':
                    lines = ['#ifndef DEPTH_%s' % gname, '#define DEPTH_%s' % gname] + body + ['#endif']    # still bounded: behaves as guard but via other name
                    lines = body if not any('#include' in b for b in body) else lines
                elif style == 'guard':
                    lines = ['#ifndef ' + gname, '#define ' + gname] + body + ['#endif']
                    feats.add('include-guard')
                elif style == 'pragma-once':
                    lines = ['#pragma once'] + body
                    feats.add('pragma-once')
                elif style == 'pragma-once-after-line':
                    # generated headers: a #line directive renames the file before #pragma once; the pragma still applies to the real file
                    other = rng.choice(names)
                    lines = [rng.choice(['#line 100 "gen_%s"' % nm, '# 7 "%s"' % other, '#line 5 "./%s"' % other]), '#pragma once'] + body
                    feats.add('pragma-once-after-line-directive')
                elif style == 'guard-trailing-text':
                    lines = ['#ifndef ' + gname, '#define ' + gname] + body + ['#endif', mark('%s/%s_after_endif' % (d, nm))]
                    feats.add('guard-with-trailing-text')
                elif style == 'guard-else':
                    lines = ['#ifndef ' + gname, '#define ' + gname] + body + ['#else', mark('%s/%s_else' % (d, nm)), '#endif']
                    feats.add('guard-with-else-branch')
                elif style == 'guard-elif':
                    lines = ['#ifndef ' + gname, '#define ' + gname] + body + [rng.choice(['#elif 1', '#elif defined(%s)' % gname, '#elif 0']), mark('%s/%s_elif' % (d, nm)), '#endif']
                    feats.add('guard-with-elif-branch')
                elif style == 'guard-inner-cond':
                    lines = ['#ifndef ' + gname, '#define ' + gname, '#if 0', mark('%s/%s_inner_if' % (d, nm)), rng.choice(['#else', '#elif 1']), mark('%s/%s_inner_else' % (d, nm)), '#endif'] + body + ['#endif']
                    feats.add('guard-with-inner-conditional')
                elif style == 'guard-undef':
                    lines = ['#ifndef ' + gname, '#define ' + gname] + body + ['#endif']
                    feats.add('guard-undefined-later')
                    content[(d, nm, 'undef')] = gname
                else:
                    lines = [mark('%s/%s_before_guard' % (d, nm)), '#ifndef ' + gname, '#define ' + gname] + body + ['#endif']
                    feats.add('text-before-guard')
                content[(d, nm)] = lines
    # make include cycles finite: every header gets a global depth guard
    for (k, lines) in list(content.items()):
        if len(k) != 2:
            continue
        d, nm = k
        open(os.path.join(root, d, nm), 'w').write('\n'.join(lines) + '\n')
    main = ['MAIN_START']
    for _ in range(rng.randrange(2, 7)):
        nm = rng.choice(names)
        x = rng.random()
        if x < 0.12:
            # the same file under another spelling of its path
            d2 = rng.choice([d for d in dirs if (d, nm) in content] or ['src'])
            main.append('#include "%s"' % rng.choice(['./%s' % nm, '../%s/%s' % (d2, nm), '../src/../%s/%s' % (d2, nm), './/%s' % nm]))
            feats.add('other-path-spelling')
        elif x < 0.45:
            main.append('#include "%s"' % nm)
            feats.add('quote-include')
        elif x < 0.8:
            main.append('#include <%s>' % nm)
            feats.add('angle-include')
        elif x < 0.9:
            main += ['#define HDR "%s"' % nm, '#include HDR', '#undef HDR']
            feats.add('macro-expanded-name')
        else:
            main += ['#define HDR2 <%s>' % nm, '#include HDR2', '#undef HDR2']
            feats.add('macro-expanded-angle-name')
        if rng.random() < 0.3:
            und = [v for (k, v) in content.items() if len(k) == 3]
            if und:
                main.append('#undef ' + rng.choice(und))
        main.append('MAIN_%d' % len(main))
    main += ['#ifdef OPT_A', 'OPT_A_IS OPT_A', '#endif', '#ifdef OPT_B', 'OPT_B_IS OPT_B', '#endif', 'MAIN_END']
    open(os.path.join(root, 'src', 'main.c'), 'w').write('\n'.join(main) + '\n')
    opts = []
    idirs = [d for d in ['inc1', 'inc2'] if rng.random() < 0.8]
    always_after = True
    cwd = root
    rng.shuffle(idirs)
    for d in idirs:
        opts += ['-I' + os.path.join(root, d)] if rng.random() < 0.7 else ['-I', os.path.join(root, d)]
    if True:
        opts += ['-idirafter', os.path.join(root, 'after')]
        feats.add('-idirafter')
    if len(idirs) == 2:
        feats.add('two -I')
    dopts = []
    for _ in range(rng.randrange(0, 4)):
        nm = rng.choice(['OPT_A', 'OPT_B'])
        if rng.random() < 0.65:
            x = rng.random()
            if x < 0.55:
                dopts.append('-D%s=%d' % (nm, rng.randrange(1, 99)))
            elif x < 0.7:
                dopts.append('-D' + nm)
            else:
                # the name ends at the first '=': the replacement list may contain more of them, be empty, or be given as a separate word
                v = rng.choice(['(3==3)', 'p=q', '"k=v"', '', '==', '1 = 2 = 3'])
                dopts += rng.choice([['-D%s=%s' % (nm, v)], ['-D', '%s=%s' % (nm, v)]])
                feats.add('-D value with =')
        else:
            dopts += rng.choice([['-U' + nm], ['-U', nm]])
    if len(dopts) > 1:
        feats.add('-D/-U order')
    if rng.random() < 0.3 and content:
        k = rng.choice([k for k in content if len(k) == 2])
        if rng.random() < 0.5:
            opts += ['-include', os.path.join(root, k[0], k[1])]
            feats.add('-include')
        else:
            # a bare name: looked for in the working directory first, then along the include path
            opts += ['-include', rng.choice(names)]
            cwd = os.path.join(root, rng.choice(dirs))
            feats.add('-include relative name')
    # keep "-D" "NAME=V" pairs together when the option list is split around the -I options
    h = len(dopts) // 2
    if h and dopts[h - 1] in ('-D', '-U'):
        h += 1
    opts = dopts[:h] + opts + dopts[h:]
    return os.path.join(root, 'src', 'main.c'), opts, feats, cwd


def run_cond(a):
    (idx, cc, work, src) = a
    p = os.path.join(work, 'c%d.c' % idx)
    open(p, 'w').write(src)
    rg = core.sh(['gcc', '-E', '-P', '-w', '-std=gnu11', p], timeout=20)
    rc = core.sh(['clang', '-E', '-P', '-w', '-std=gnu11', p], timeout=20)
    rx = core.sh([cc, '-E', p], env=core.SAN_ENV, timeout=20)
    os.unlink(p)
    return idx, rg, rc, rx


def run_incl(a):
    (idx, cc, work, seed) = a
    rng = random.Random(seed)
    root = os.path.join(work, 't%d' % idx)
    os.makedirs(root)
    main, opts, feats, cwd = incl_case(rng, root)
    rg = core.sh(['gcc', '-E', '-P', '-w', '-std=gnu11', main] + opts, timeout=20, cwd=cwd)
    rc = core.sh(['clang', '-E', '-P', '-w', '-std=gnu11', main] + opts, timeout=20, cwd=cwd)
    rx = core.sh([cc, '-E', main] + opts, env=core.SAN_ENV, timeout=20, cwd=cwd)
    tree = {}
    for dp, dn, fn in os.walk(root):
        for f in fn:
            tree[os.path.relpath(os.path.join(dp, f), root)] = open(os.path.join(dp, f)).read()
    shutil.rmtree(root, ignore_errors=True)
    return idx, rg, rc, rx, feats, [o.replace(root, '$ROOT') for o in opts], tree, os.path.relpath(cwd, root)


def compare(ctx, kind, feats, rg, rc, rx, files, script):
    if rg[0] != 0 or rc[0] != 0:
        ctx.count(kind + '_discarded_reference_rejects')
        return
    tg, tc = pptok.spellings(rg[1].decode('utf-8', 'replace')), pptok.spellings(rc[1].decode('utf-8', 'replace'))
    if tg != tc:
        ctx.count(kind + '_discarded_reference_ambiguous')
        return
    ctx.count(kind + '_compared')
    fkey = '+'.join(sorted(feats)) or 'plain'
    ctx.saw(kind + ':' + fkey)
    et = rx[2].decode('utf-8', 'replace')
    if rx[0] != 0:
        m = 'crash' if ('Sanitizer' in et or (isinstance(rx[0], int) and rx[0] < 0)) else 'rejects-valid'
        ctx.violation('C10|%s|%s|%s' % (kind, fkey, m), 'chibicc -E failed (%s) where gcc and clang succeed: %s' % (rx[0], ' | '.join(et.split('\n')[:2])[:300]), files=files, script=script)
        return
    tx = pptok.spellings(rx[1].decode('utf-8', 'replace'))
    if tx != tg:
        k = next((i for i in range(min(len(tx), len(tg))) if tx[i] != tg[i]), min(len(tx), len(tg)))
        ctx.violation('C10|%s|%s|tokens' % (kind, fkey), 'token %d: chibicc ...%s, gcc = clang ...%s' % (k, ' '.join(tx[max(0, k - 2):k + 3]), ' '.join(tg[max(0, k - 2):k + 3])), files=files, script=script)


def system_shadow_cases(ctx, cc, work, rng):
    """Headers that also exist in the system directories (stdarg.h, stddef.h, limits.h, stdio.h ...) placed in -I and
    -idirafter directories: -I wins over the system copy, the system copy wins over -idirafter.  System headers differ
    between compilers, so only the sequence of marker tokens is compared with gcc == clang."""
    root = os.path.join(work, 'shadow')
    os.makedirs(os.path.join(root, 'idir'))
    os.makedirs(os.path.join(root, 'after'))
    os.makedirs(os.path.join(root, 'after2'))
    names = ['stdarg.h', 'stddef.h', 'stdbool.h', 'float.h', 'stdalign.h', 'stdnoreturn.h', 'only_here.h']      # leaf headers every compiler ships itself
    for d in ('idir', 'after', 'after2'):
        for nm in names:
            if d == 'idir' and nm in ('float.h', 'stdalign.h', 'only_here.h'):
                continue
            open(os.path.join(root, d, nm), 'w').write('MARK_%s_%s\n' % (d, nm.replace('.', '_')))
    k = 0
    for trial in range(ctx.scale(24, 200)):
        sel = rng.sample(names, rng.randrange(1, 5))
        src = 'MARK_begin\n' + ''.join('#include <%s>\nMARK_after_include_%d\n' % (nm, i) for i, nm in enumerate(sel)) + 'MARK_end\n'
        opts = rng.choice([['-idirafter', 'after'], ['-I', 'idir', '-idirafter', 'after'], ['-idirafter', 'after', '-I', 'idir'], ['-idirafter', 'after', '-idirafter', 'after2'],
                           ['-idirafter', 'after2', '-Iidir', '-idirafter', 'after'], []])
        if not opts and 'only_here.h' in sel:
            continue
        p = os.path.join(root, 'sh%d.c' % trial)
        open(p, 'w').write(src)
        outs = {}
        for kind, cmd in (('gcc', ['gcc', '-E', '-P', '-w']), ('clang', ['clang', '-E', '-P', '-w']), ('chibicc', [cc, '-E'])):
            rc, o, e = core.sh(cmd + opts + [p], cwd=root, env=core.SAN_ENV if kind == 'chibicc' else None, timeout=60)
            outs[kind] = (rc, re.findall(r'\bMARK_\w+', o.decode('utf-8', 'replace')), e.decode('utf-8', 'replace'))
        ctx.evaluations += 1
        if outs['gcc'][0] != 0 or outs['clang'][0] != 0 or outs['gcc'][1] != outs['clang'][1]:
            ctx.count('shadow_discarded')
            continue
        ctx.count('system_shadow_compared')
        feat = '+'.join(o for o in opts if o.startswith('-')) or 'no-option'
        ctx.saw('shadow:' + feat + ':' + '+'.join(sorted(sel)))
        files = {'case.c': src}
        if outs['chibicc'][0] != 0:
            ctx.violation('C10|incl|system-shadow|%s|rejected' % feat, 'chibicc -E failed: ' + core.first_line(outs['chibicc'][2]), files=files)
        elif outs['chibicc'][1] != outs['gcc'][1]:
            ctx.violation('C10|incl|system-shadow|%s|markers' % feat, 'options %s, includes %s: chibicc saw %s, gcc = clang %s' % (opts, sel, outs['chibicc'][1], outs['gcc'][1]), files=files)


def run(ctx):
    cc = ctx.build('san')
    work = ctx.tmpdir('c10')
    rng = ctx.rng
    ctx.rule = ('cond case = random conditional nesting (depth <= 5) with unique markers per group; incl case = random directory tree + main file + option order; '
                'chibicc -E tokens must equal gcc -E == clang -E; distinct = distinct feature sets')
    ctx.assumptions += ['#if expressions are generated only where C11 defines them in intmax_t/uintmax_t (Python model)', 'no fake system directories (chibicc has no -isystem)']
    system_shadow_cases(ctx, cc, work, rng)
    n = ctx.scale(2500, 50000)
    cases = [cond_case(rng) for _ in range(n)]
    script = '$CHIBICC -E case.c > got.txt; gcc -E -P -w case.c > ref.txt; python3 -c "import sys; sys.path.insert(0, \'$VERIF\'); from lib import pptok; sys.exit(0 if pptok.spellings(open(\'got.txt\').read()) == pptok.spellings(open(\'ref.txt\').read()) else 1)"'
    for idx, rg, rc, rx in core.pmap(run_cond, [(i, cc, work, c[0]) for i, c in enumerate(cases)], chunksize=16):
        ctx.evaluations += 1
        compare(ctx, 'cond', cases[idx][1], rg, rc, rx, {'case.c': cases[idx][0]}, script)
    m = ctx.scale(1200, 24000)
    for idx, rg, rc, rx, feats, opts, tree, rcwd in core.pmap(run_incl, [(i, cc, work, ctx.seed * 7919 + i) for i in range(m)], chunksize=8):
        ctx.evaluations += 1
        files = dict(tree)
        files['options.txt'] = ' '.join(opts) + '\n'
        sc = ('ROOT=$PWD; O=$(sed "s#\\$ROOT#$ROOT#g" options.txt); cd ' + rcwd + '; $CHIBICC -E $ROOT/src/main.c $O > $ROOT/got.txt; gcc -E -P -w $ROOT/src/main.c $O > $ROOT/ref.txt; cd $ROOT; python3 -c "import sys; sys.path.insert(0, \'$VERIF\'); '
              'from lib import pptok; sys.exit(0 if pptok.spellings(open(\'got.txt\').read()) == pptok.spellings(open(\'ref.txt\').read()) else 1)"')
        compare(ctx, 'incl', feats, rg, rc, rx, files, sc)
    ctx.sample({'cond_case': cases[0][0][:800]})
