"""C06 - calls obey the System V x86-64 calling convention.

Every generated signature is built in the 2x2 matrix caller in {chibicc, gcc} x callee in {chibicc, gcc} (clang->clang as
tie-breaker).  Every scalar leaf of every argument and return value carries a unique value; the callee logs what it
received (leaf-wise raw bytes), the caller logs what came back.  Grid: argument class x registers already used
(0..7 GP, 0..9 SSE) x return class; random signatures on top; variadic functions with every class through va_arg.
Absolute monitors: 16-byte stack alignment at entry of every gcc-compiled callee and (hook) at every call chibicc emits;
callee-saved register canaries around the whole chibicc call tree; the stack is dirtied before each call."""
import os, random, re
from lib import core, cint, ctype
from lib.ctype import Scalar, Array, Agg, Member

LEVEL = 'exploration'
MIN_COUNTS = {'signatures': (5000, 30000), 'observations': (150000, 800000)}

SC = ['bool', 'i8', 'u8', 'i16', 'u16', 'i32', 'u32', 'i64', 'u64', 'ptr', 'f32', 'f64', 'f80']


def cval(s, j):
    """A distinctive constant for leaf number j of scalar type s."""
    if s == 'bool':
        return str(j & 1)
    if s == 'ptr':
        return '(char *)%dL' % (0x10000 + j * 16)
    if s == 'f32':
        return '%d.25f' % (j + 1)
    if s == 'f64':
        return '%d.5' % (j + 100)
    if s == 'f80':
        return '%d.125L' % (j + 200)
    b = cint.bits(s)
    if cint.signed(s):
        v = ((j * 37 + 11) % (1 << (b - 2))) * (-1 if j % 3 == 0 else 1)
    else:
        v = (1 << (b - 1)) + (j * 41 + 7) % (1 << (b - 2))
    return '%d%s' % (v, 'UL' if s == 'u64' else 'L' if s == 'i64' else 'U' if s == 'u32' else '')


def small_struct(rng, g, maxsize=None):
    for _ in range(50):
        t = g.agg(0)
        if ctype_has_flex(t):
            continue
        return t
    return g.agg(0)


def has_f80(t):
    if isinstance(t, Agg):
        return any(has_f80(m.ty) for m in t.members)
    if isinstance(t, Array):
        return has_f80(t.elem)
    return t.s == 'f80'


def ctype_has_flex(t):
    return isinstance(t, Agg) and t.flexible


class Sig:
    """One function signature: list of parameter types (Scalar or Agg), return type, variadic tail."""
    def __init__(self, k, params, ret, var=None, tag='composite'):
        self.k, self.params, self.ret, self.var, self.tag = k, params, ret, var or [], tag

    def tdefs(self, out, seen):
        for i, t in enumerate(self.params + [self.ret] + self.var):
            if isinstance(t, Agg) and id(t) not in seen:
                seen.add(id(t))
                t.tag = 'S%d_%d' % (self.k, i)
                out.append(t.body() + ';')

    def tname(self, t):
        return '%s %s' % (t.kind, t.tag) if isinstance(t, Agg) else ctype.scalar_cname(t.s)

    def proto(self):
        ps = ', '.join('%s p%d' % (self.tname(t), i) for i, t in enumerate(self.params)) or 'void'
        if self.var:
            ps += ', ...'
        return '%s f%d(%s)' % (self.tname(self.ret) if self.ret else 'void', self.k, ps)

    def leaves(self, t, root):
        lv = []
        ctype.leaves(t, root, lv, limit=64)
        return lv

    def desc(self, i):
        t = (self.params + self.var)[i]
        if isinstance(t, Agg):
            lv = self.leaves(t, 'x')
            return '%s{%s}' % (t.kind, ','.join(l[1] + (':%d' % l[2] if l[2] else '') for l in lv)[:60])
        return t.s


def dump_leaf(idn, path, s, bits):
    if bits is not None:
        return 'OUTV(%d, %s);' % (idn, path)
    if s == 'f80':
        return 'OUT(%d, &%s, 10);' % (idn, path)
    return 'OUT(%d, &%s, sizeof(%s));' % (idn, path, path)


def set_leaf(path, s, bits, j):
    v = cval(s, j)
    if bits is not None:
        w = bits
        if s == 'bool' or w == 1:
            return '%s = %d;' % (path, j & 1 if s == 'bool' or not cint.signed(s) else -(j & 1))
        if cint.signed(s):
            return '%s = %d;' % (path, ((j * 5 + 1) % (1 << (w - 1))) * (-1 if j % 2 else 1))
        return '%s = %d;' % (path, (j * 5 + 1) % (1 << w))
    return '%s = %s;' % (path, v)


def callee_src(sigs, decl_only=False):
    """Definitions of f_k: log every leaf of every parameter, return distinctive value."""
    out = []
    for sg in sigs:
        body = []
        if not decl_only:
            body.append('ENTRY_ALIGN(%d);' % (sg.k * 1000 + 999))
        n = 0
        for i, t in enumerate(sg.params):
            for (path, s, bits) in (sg.leaves(t, 'p%d' % i) if isinstance(t, Agg) else [('p%d' % i, t.s, None)]):
                body.append(dump_leaf(sg.k * 1000 + i * 20 + min(n, 19) * 0 + i, path, s, bits))
                if s == 'f80' and not decl_only:
                    # conversions of the received value: the callee must hand the x87 control word back as it got it
                    body.append('{ volatile long cv%d_%d = (long)(%s / 1e4000L == 0 ? %s : 0); volatile unsigned short cs%d_%d = (unsigned short)(%s == %s ? 7.9L : 1.5L); }' % (i, n, path, path, i, n, path, path))
                n += 1
        if sg.var:
            body.append('va_list ap; va_start(ap, p%d);' % (len(sg.params) - 1))
            for j, t in enumerate(sg.var):
                idn = sg.k * 1000 + 500 + j
                if isinstance(t, Agg):
                    body.append('{ %s v = va_arg(ap, %s);' % (sg.tname(t), sg.tname(t)))
                    for (path, s, bits) in sg.leaves(t, 'v'):
                        body.append(dump_leaf(idn, path, s, bits))
                    body.append('}')
                else:
                    pt = {'bool': 'int', 'i8': 'int', 'u8': 'int', 'i16': 'int', 'u16': 'int', 'f32': 'double'}.get(t.s) or ctype.scalar_cname(t.s)
                    body.append('{ %s v = va_arg(ap, %s); OUT(%d, &v, %s); }' % (pt, pt, idn, '10' if t.s == 'f80' else 'sizeof v'))
            body.append('va_end(ap);')
        if sg.ret is not None:
            rt = sg.ret
            body.append('%s r;' % sg.tname(rt))
            if isinstance(rt, Agg):
                body.append('memset(&r, 0, sizeof r);')
                for j, (path, s, bits) in enumerate(sg.leaves(rt, 'r')):
                    body.append(set_leaf(path, s, bits, j + 40))
            else:
                body.append(set_leaf('r', rt.s, None, 77))
            body.append('return r;')
        out.append('%s {\n%s\n}' % (sg.proto(), '\n'.join(body)))
    return '\n'.join(out)


def caller_src(sigs, rng):
    out = []
    calls = []
    for sg in sigs:
        body = []
        args = []
        j = 0
        for i, t in enumerate(sg.params + sg.var):
            if isinstance(t, Agg):
                body.append('%s a%d; memset(&a%d, 0, sizeof a%d);' % (sg.tname(t), i, i, i))
                for (path, s, bits) in sg.leaves(t, 'a%d' % i):
                    body.append(set_leaf(path, s, bits, j))
                    j += 1
                args.append('a%d' % i)
            else:
                body.append('%s a%d = %s;' % (ctype.scalar_cname(t.s), i, cval(t.s, j)))
                j += 1
                args.append('a%d' % i)
        call = 'f%d(%s)' % (sg.k, ', '.join(args))
        body.append('dirty_stack();')
        if sg.ret is None:
            body.append(call + ';')
        else:
            rt = sg.ret
            ctxsel = rng.randrange(5)
            if isinstance(rt, Agg):
                if ctxsel == 4 and sg.leaves(rt, 'r'):
                    # the result is passed on directly as a by-value argument: it is read through the returned address while new stack space is carved out
                    out.append('static void sink%d(long pad, %s r, long pad2) {\n%s\n}' % (sg.k, sg.tname(rt), '\n'.join(dump_leaf(sg.k * 1000 + 900, path, s, bits) for (path, s, bits) in sg.leaves(rt, 'r'))))
                    body.append('sink%d(7, %s, 8);' % (sg.k, call))
                    if not sg.params and not sg.var:
                        body.append('{ static char sb[sizeof(%s) + 64]; if (sizeof(%s) > 16) OUTV(%d, vrt_sret_call((void *)f%d, sb + 16) == (long)(sb + 16)); }' % (sg.tname(rt), sg.tname(rt), sg.k * 1000 + 901, sg.k))
                    out.append('static void c%d(void) {\n%s\n}' % (sg.k, '\n'.join(body)))
                    calls.append('c%d();' % sg.k)
                    continue
                if ctxsel == 0 and sg.leaves(rt, 'r'):
                    body.append('%s r = %s;' % (sg.tname(rt), call))
                elif ctxsel == 1:
                    body.append('%s r; r = %s;' % (sg.tname(rt), call))
                else:
                    body.append('%s r; int pad1 = 3; r = (pad1 + 4 > 0) ? %s : %s;' % (sg.tname(rt), call, call))
                for (path, s, bits) in sg.leaves(rt, 'r'):
                    body.append(dump_leaf(sg.k * 1000 + 900, path, s, bits))
                if not sg.params and not sg.var:
                    body.append('{ static char sb[sizeof(%s) + 64]; if (sizeof(%s) > 16) OUTV(%d, vrt_sret_call((void *)f%d, sb + 16) == (long)(sb + 16)); }' % (sg.tname(rt), sg.tname(rt), sg.k * 1000 + 901, sg.k))
            else:
                cn = ctype.scalar_cname(rt.s)
                if rt.s in ('ptr',):
                    body.append('%s r = %s;' % (cn, call))
                elif ctxsel == 0:
                    body.append('%s r = %s;' % (cn, call))
                elif ctxsel == 1:       # call nested in an expression: pending temporaries change the push parity
                    body.append('volatile int one = 1; %s r = (one + 1 - 2) + %s;' % (cn, call))
                elif ctxsel == 2:
                    body.append('volatile int one = 1; %s r = 1 * ((one + (2 * (one + 3))) * 0 + %s);' % (cn, call))
                else:
                    body.append('%s r; r = %s;' % (cn, call))
                body.append(dump_leaf(sg.k * 1000 + 900, 'r', rt.s, None))
        out.append('static void c%d(void) {\n%s\n}' % (sg.k, '\n'.join(body)))
        calls.append('c%d();' % sg.k)
    out.append('void caller_entry(void) {\n%s\n}' % '\n'.join(calls))
    return '\n'.join(out)


HDR = '''#include "vrt.h"
#include <stdarg.h>
void *memset(void *, int, unsigned long);
#ifdef __chibicc__
#define ENTRY_ALIGN(id)
#else
#define ENTRY_ALIGN(id) do { if (((unsigned long)__builtin_frame_address(0)) % 16) OUTV(id, -16); } while (0)
#endif
'''
MAIN = '''#include "vrt.h"
long call_with_canaries(void (*fn)(void));
void caller_entry(void);
int main(void) { long m = call_with_canaries(caller_entry); OUTV(999999, m); return 0; }
'''


def gen_sigs(rng, n_random, quick):
    sigs = []
    k = 0
    g = lambda **kw: ctype.Gen(rng, packed=False, aligned=False, alignas=False, flex=False, ldouble=True, zero_width=False, unnamed_bf=False,
                               max_depth=kw.get('d', 2), max_members=kw.get('m', 4))
    fixed_structs = []

    def S(*members):
        ms = []
        for i, m in enumerate(members):
            if isinstance(m, tuple):
                ms.append(Member('m%d' % i, Array(Scalar(m[0]), m[1])))
            else:
                ms.append(Member('m%d' % i, Scalar(m)))
        return Agg('struct', ms)
    classes = [
        ('INTEGER:i32', lambda: Scalar('i32')), ('INTEGER:i8', lambda: Scalar('i8')), ('INTEGER:bool', lambda: Scalar('bool')), ('INTEGER:u16', lambda: Scalar('u16')),
        ('INTEGER:ptr', lambda: Scalar('ptr')), ('SSE:f32', lambda: Scalar('f32')), ('SSE:f64', lambda: Scalar('f64')), ('X87:f80', lambda: Scalar('f80')),
        ('struct{INT}', lambda: S('i64')), ('struct{INT}3', lambda: S(('i8', 3))), ('struct{SSE}', lambda: S('f64')), ('struct{SSE}4', lambda: S('f32')),
        ('struct{INT,INT}', lambda: S('i64', 'i32')), ('struct{SSE,SSE}', lambda: S('f64', 'f64')), ('struct{INT,SSE}', lambda: S('i64', 'f64')),
        ('struct{SSE,INT}', lambda: S('f64', 'i8')), ('struct{SSE,SSE}12', lambda: S('f32', 'f32', 'f32')), ('struct{INTmixed}', lambda: S('f32', 'i32')),
        ('struct{MEMORY}24', lambda: S('i64', 'i64', 'i64')), ('struct{MEMORY}fp', lambda: S('f64', 'f64', 'f64')), ('struct{INT}9', lambda: S('i64', 'i8')),
        ('struct{SSE,INT}12', lambda: S('f64', 'i32')), ('struct{INT,SSE}12', lambda: S(('i8', 5), 'f32')),
    ]
    rets = [None, Scalar('i32'), Scalar('i8'), Scalar('bool'), Scalar('u16'), Scalar('i64'), Scalar('ptr'), Scalar('f32'), Scalar('f64'), Scalar('f80'),
            ]
    retgens = [lambda: S('i64'), lambda: S('f64'), lambda: S('i64', 'f64'), lambda: S('f32', 'f32', 'f32'), lambda: S('f64', 'i32'), lambda: S('i64', 'i64', 'i64'),
               lambda: S(('i8', 3)), lambda: S('f32'), lambda: S('i64', 'i64'), lambda: S(('i8', 20)), lambda: S('f64', 'f64')]
    # complete grid: class x GP used x SSE used (return class cycles)
    ri = 0
    gps = range(0, 8)
    fps = range(0, 10)
    for (cn, mk) in classes:
        for gp in gps:
            for fp in fps:
                if quick and (gp + fp * 3 + len(cn)) % 3 != 0 and not (gp >= 4 or fp >= 6):
                    continue
                params = [Scalar('i64') for _ in range(gp)] + [Scalar('f64') for _ in range(fp)]
                rng.shuffle(params)
                params.append(mk())
                params += [Scalar(rng.choice(['i32', 'f64', 'i8', 'f32']))] * 0 + [Scalar('i32'), Scalar('f64')]
                ri += 1
                ret = rets[ri % len(rets)] if ri % 2 else retgens[ri % len(retgens)]()
                sigs.append(Sig(k, params, ret, tag='grid|%s@gp=%d,fp=%d' % (cn, gp, fp)))
                k += 1
    # parameterless functions returning MEMORY-class aggregates: %rax must hold the caller's buffer address on return
    for mk in (lambda: S('i64', 'i64', 'i64'), lambda: S(('i8', 20)), lambda: S('f64', 'f64', 'f64'), lambda: S(('i8', 17)), lambda: S('i64', 'f64', 'i32'), lambda: S(('i32', 75)),
               lambda: S('f32', ('i16', 9)), lambda: S('i64', 'i64', 'i8')):
        for rep in range(2):
            sigs.append(Sig(k, [], mk(), tag='sret'))
            k += 1
    # random signatures
    for _ in range(n_random):
        n = rng.choice([0, 1, 2, 3, 5, 8, 12])
        params = []
        for _ in range(n):
            x = rng.random()
            if x < 0.55:
                params.append(Scalar(rng.choice(SC)))
            else:
                params.append(small_struct(rng, g(d=rng.choice([1, 2]), m=rng.choice([1, 2, 3, 5]))))
        x = rng.random()
        ret = None if x < 0.1 else Scalar(rng.choice(SC)) if x < 0.6 else small_struct(rng, g(d=rng.choice([1, 2]), m=rng.choice([1, 2, 4])))
        sigs.append(Sig(k, params, ret))
        k += 1
    # variadic
    for _ in range(max(40, n_random // 4)):
        named = [Scalar(rng.choice(['i32', 'i64', 'ptr', 'f64', 'i8'])) for _ in range(rng.randrange(1, 4))]
        var = [Scalar(rng.choice(['i32', 'i64', 'u32', 'ptr', 'f64', 'f64', 'f32', 'i8', 'u16', 'bool', 'f80', 'u64'])) for _ in range(rng.choice([0, 1, 2, 4, 7, 9, 14]))]
        sigs.append(Sig(k, named, Scalar(rng.choice(['i32', 'f64', 'i64'])), var=var, tag='variadic'))
        k += 1
    # variadic with everything the named parameters can occupy (long double, structs of every class, more than the registers hold) and
    # with structs among the unnamed arguments (fetched from the saved registers while they last, from the stack afterwards)
    for _ in range(max(40, n_random // 4)):
        named = []
        for _ in range(rng.choice([1, 2, 3, 5, 8, 11])):
            x = rng.random()
            named.append(Scalar(rng.choice(['i32', 'i64', 'ptr', 'f64', 'f32', 'i8', 'f80'])) if x < 0.7 else small_struct(rng, g(d=rng.choice([1, 2]), m=rng.choice([1, 2, 3, 5]))))
        var = []
        for _ in range(rng.choice([1, 2, 4, 7, 9, 14])):
            x = rng.random()
            var.append(Scalar(rng.choice(['i32', 'i64', 'ptr', 'f64', 'f64', 'f80', 'u64'])) if x < 0.55 else small_struct(rng, g(d=rng.choice([1, 2]), m=rng.choice([1, 2, 3, 5]))))
        sigs.append(Sig(k, named, Scalar(rng.choice(['i32', 'f64', 'i64'])), var=var, tag='variadic-structs'))
        k += 1
    return sigs


def probes(k0):
    """Dedicated single-feature probes for the open findings (fixed keys)."""
    def S(*members):
        return Agg('struct', [Member('m%d' % i, Scalar(m)) for i, m in enumerate(members)])
    ps = [
        Sig(k0, [Scalar('i32'), S('f80')], Scalar('i32'), tag='probe|struct-with-long-double|arg'),
        Sig(k0 + 1, [Scalar('i32')], S('f80'), tag='probe|struct-with-long-double|ret'),
        Sig(k0 + 2, [Scalar('i32')], Scalar('i32'), var=[S('i32', 'f64')], tag='probe|va_arg-small-struct'),
        Sig(k0 + 3, [Scalar('i64')] * 7 + [Scalar('f80'), Scalar('bool'), Scalar('f80')], Scalar('i32'), tag='probe|long-double-stack-alignment'),
        Sig(k0 + 4, [Scalar('i32')], Scalar('i32'), var=[S('i64', 'i64', 'i64')], tag='probe|va_arg-large-struct'),
        Sig(k0 + 5, [Scalar('i64')] * 4 + [Agg('struct', [Member('m1', Scalar('u32'), 1), Member('m4', Agg('struct', [Member('m2', Scalar('u16')), Member('m3', Scalar('u16')), Member(None, Scalar('u64'), 18)]))]),
                     S('i64', 'i64')], Scalar('i32'), tag='probe|padding-only-eightbyte'),
    ]
    return ps


def build_pair(a):
    """Builds callee and caller objects with each compiler and runs the link matrix for one chunk of signatures."""
    (idx, cc, work, callee_c, caller_c) = a
    d = os.path.join(work, 'p%d' % idx)
    os.makedirs(d)
    open(os.path.join(d, 'callee.c'), 'w').write(callee_c)
    open(os.path.join(d, 'caller.c'), 'w').write(caller_c)
    open(os.path.join(d, 'main.c'), 'w').write(MAIN)
    inc = '-I' + os.path.join(core.VERIF, 'rt')
    objs = {}
    errs = {}
    for comp in ('chibicc', 'gcc', 'clang'):
        for unit in ('callee', 'caller'):
            o = os.path.join(d, '%s.%s.o' % (unit, comp))
            src = os.path.join(d, unit + '.c')
            if comp == 'chibicc':
                rc, so, se = core.sh([cc, '-c', '-o', o, src, inc], env={'CHIBICC_VERIF_PROBES': '1'}, timeout=120)
            else:
                rc, so, se = core.sh([comp, '-std=gnu11', '-O0', '-w', '-c', '-o', o, src, inc], timeout=120)
            if rc != 0:
                errs[(comp, unit)] = se.decode('utf-8', 'replace')[-600:]
            objs[(comp, unit)] = o
    mo = os.path.join(d, 'main.o')
    core.sh(['gcc', '-O0', '-w', '-c', '-o', mo, os.path.join(d, 'main.c'), inc])
    outs = {}
    for (cr, ce) in (('gcc', 'gcc'), ('clang', 'clang'), ('chibicc', 'chibicc'), ('chibicc', 'gcc'), ('gcc', 'chibicc')):
        if (cr, 'caller') in errs or (ce, 'callee') in errs:
            outs[(cr, ce)] = None
            continue
        exe = os.path.join(d, 'x.%s.%s' % (cr, ce))
        rc, so, se = core.link([mo, objs[(cr, 'caller')], objs[(ce, 'callee')]], exe)
        if rc != 0:
            outs[(cr, ce)] = ('link', se.decode('utf-8', 'replace')[-300:])
            continue
        rc, so, se = core.run_exe(exe, timeout=60, env={'VERIF_PROBE_REPORT': '1'})
        outs[(cr, ce)] = (rc, so.decode('utf-8', 'replace'))
    import shutil
    shutil.rmtree(d, ignore_errors=True)
    return idx, outs, errs


UNPROTO_CALLEE = HDR + '''
double uf0(double a, double b, int c, int d, long e, double f) { OUT(1, &a, 8); OUT(2, &b, 8); OUTV(3, c); OUTV(4, d); OUTV(5, e); OUT(6, &f, 8); return a + b; }
int uf1(int a, double x, int b, unsigned c, double y, double z, double w) { OUTV(11, a); OUT(12, &x, 8); OUTV(13, b); OUTV(14, c); OUT(15, &y, 8); OUT(16, &z, 8); OUT(17, &w, 8); return a + b; }
long double uf2(double a, long double b, int c) { OUT(21, &a, 8); OUT(22, &b, 10); OUTV(23, c); return b + a; }
'''
UNPROTO_CALLER = HDR + '''
/* calls through declarations without a prototype: the default argument promotions apply (float -> double, narrow integers -> int) */
double uf0(); int uf1(); long double uf2();
void caller_entry(void) {
  float f = 1.5f, g = 0.1f; char c = -3; short s = 300; _Bool t = 1; unsigned char uc = 200; unsigned short us = 65000; signed char sc = -100;
  dirty_stack();
  double r = uf0(f, g, c, s, 5L, 2.5f); OUT(7, &r, 8);
  double (*fp)() = uf0; r = fp(g, f, uc, t, 7L, f); OUT(8, &r, 8);
  r = (*fp)(f + g, -f, sc, us, (long)s, g * g); OUT(9, &r, 8);
  int q = uf1(c, f, us, uc, g, f, -g); OUTV(18, q);
  int (*ip)() = uf1; q = ip(t, g, sc, us, f, g, f); OUTV(19, q);
  long double l = uf2(f, 2.5L, c); OUT(24, &l, 10);
  long double (*lp)() = uf2; l = lp(g, (long double)f, uc); OUT(25, &l, 10);
}
'''


X87_ACROSS_CALLS = r'''
#include <stdio.h>
long double vrt_x87_heavy(void);          /* rt/vrt_asm.S: uses all eight x87 registers, returns 8 */
struct SL { long double v; int k; };
static struct SL tab[2] = { { 1.5L, 1 }, { 2.5L, 2 } };
static struct SL mk(void) { struct SL s = { vrt_x87_heavy(), 7 }; return s; }
static struct SL *pmk(void) { static struct SL s; s.v = vrt_x87_heavy(); return &s; }
static int idx(void) { return vrt_x87_heavy() > 7; }
static long double arr[3] = { 1, 2, 3 };
#define P(label, e) do { long double r_ = (e); printf(label " %La\n", r_); } while (0)
int main(void) {
  volatile long double x = 1.25L, y = 2.5L;
  P("plus-call", x + vrt_x87_heavy()); P("call-plus", vrt_x87_heavy() + x); P("plus-member-of-call", x + mk().v); P("times-element-by-call", x * tab[idx()].v); P("minus-arrow-of-call", x - pmk()->v);
  P("plus-array-by-call", x + arr[idx() + 1]); P("plus-deref-of-call", y / *(&pmk()->v)); P("nested", x + (y * mk().v - (x + tab[idx()].v))); P("compare", (long double)(x < mk().v)); P("cond", x + (idx() ? mk().v : y));
  P("comma", x + (idx(), y)); P("cast", x + (long double)idx()); P("assign-op", (y += mk().v, y)); P("two-calls", mk().v * pmk()->v + x);
  return 0;
}
'''


def va_list_interop(ctx, cc, work):
    """va_list is part of the ABI: a list made by va_start on one side is read by va_arg on the other side (vprintf-style forwarding), with
    named parameters of every class in front of the unnamed arguments and with structs of every register class among them.  The reference
    library (rt/c06/va_lib.c) is always gcc-compiled; rt/c06/va_main.c is built by chibicc, gcc and clang and must print the same lines."""
    d = os.path.join(core.VERIF, 'rt', 'c06')
    lib = os.path.join(work, 'va_lib.o')
    rc, o, e = core.sh(['gcc', '-O0', '-w', '-c', '-o', lib, os.path.join(d, 'va_lib.c')], timeout=120)
    if rc != 0:
        raise core.Inconclusive('va_lib.c does not compile: ' + e.decode()[-300:])
    outs = {}
    for kind, cmd in (('chibicc', [cc, '-c']), ('gcc', ['gcc', '-O0', '-w', '-c']), ('clang', ['clang', '-O0', '-w', '-c'])):
        obj = os.path.join(work, 'va_main.%s.o' % kind)
        exe = os.path.join(work, 'va_main.%s.exe' % kind)
        rc, o, e = core.sh(cmd + ['-o', obj, os.path.join(d, 'va_main.c')], timeout=120)
        if rc == 0:
            rc, o, e = core.sh(['gcc', '-o', exe, obj, lib], timeout=120)
        if rc != 0:
            outs[kind] = ('build', e.decode('utf-8', 'replace'))
            continue
        rc, o, e = core.sh([exe], timeout=60)
        outs[kind] = ('run:%s' % rc, o.decode('utf-8', 'replace'))
    ctx.evaluations += 1
    script = ('$CHIBICC -c -o m.o $VERIF/rt/c06/va_main.c && gcc -w -c -o l.o $VERIF/rt/c06/va_lib.c && gcc -o t m.o l.o && ./t > got.txt; gcc -w -o r $VERIF/rt/c06/va_main.c l.o && ./r > ref.txt; '
              'cmp -s got.txt ref.txt && exit 0; diff got.txt ref.txt | head; exit 1')
    if outs['gcc'][0] != 'run:0' or outs['clang'][0] != 'run:0':
        raise core.Inconclusive('reference failed on the va_list interoperability program: %s' % (outs['gcc'][1][-200:] + outs['clang'][1][-200:]))
    if outs['chibicc'][0] != 'run:0':
        ctx.violation('C06|va_list|%s' % ('rejected' if outs['chibicc'][0] == 'build' else 'crash'), core.first_line(outs['chibicc'][1]) or outs['chibicc'][0], script=script)
        return
    tg, tc, tx = [dict(l.split(' ', 1) for l in outs[k][1].split('\n') if ' ' in l) for k in ('gcc', 'clang', 'chibicc')]
    for k in sorted(tg):
        if tc.get(k) != tg[k]:
            ctx.count('va_list_cases_reference_ambiguous')
            continue
        ctx.count('va_list_cases')
        ctx.saw('va_list:' + k)
        if tx.get(k) != tg[k]:
            ctx.violation('C06|va_list|%s' % k, '%s: chibicc-built side yields %s, gcc = clang %s' % (k, tx.get(k), tg[k]), script=script)


def run(ctx):
    cc = ctx.build('plain')
    work = ctx.tmpdir('c06')
    rng = ctx.rng
    va_list_interop(ctx, cc, work)
    # a long double operand must not sit in an x87 register while any call is made: the callee may use all eight
    core.header_probe(ctx, cc, work, 'x87_across_calls', X87_ACROSS_CALLS, 'C06|x87-across-call|%s')
    ctx.rule = ('signature = parameter list over the psABI classes + return class (+ variadic tail); every scalar leaf carries a unique value; each signature runs in '
                'gcc->gcc, clang->clang, chibicc->chibicc, chibicc->gcc, gcc->chibicc; grid = 23 argument classes x 8 GP x 10 SSE register-exhaustion states; '
                'distinct = distinct (direction-independent) signature tags / parameter-class tuples')
    ctx.assumptions += ['oracle: gcc->gcc == clang->clang logs; a direction involving chibicc must reproduce them',
                        'aggregates containing long double and struct va_arg take part in the random signatures since their repairs; the former open-finding probes stay as regression probes']
    sigs = gen_sigs(rng, ctx.scale(3000, 30000), False)
    per = 60
    groups = [sigs[c0:c0 + per] for c0 in range(0, len(sigs), per)]
    pr = probes(len(sigs))
    groups += [[p] for p in pr]          # every dedicated probe runs alone: an abort must not hide the others
    sigs += pr
    ctx.count('signatures', len(sigs))
    jobs = []
    chunks = []
    for chunk in groups:
        td, seen = [], set()
        for sg in chunk:
            sg.tdefs(td, seen)
        protos = '\n'.join(sg.proto() + ';' for sg in chunk)
        callee_c = HDR + '\n'.join(td) + '\n' + callee_src(chunk)
        caller_c = HDR + '\n'.join(td) + '\n' + protos + '\n' + caller_src(chunk, rng)
        chunks.append((chunk, callee_c, caller_c))
        jobs.append((len(jobs), cc, work, callee_c, caller_c))
    jobs.append((len(jobs), cc, work, UNPROTO_CALLEE, UNPROTO_CALLER))
    results = core.pmap(build_pair, jobs)
    probes_n = 0
    for idx, outs, errs in results:
        if idx == len(chunks):
            # the unprototyped-call pair: every direction must print what gcc -> gcc prints
            outs = {k: (v[0], '\n'.join(l for l in v[1].split('\n') if not l.startswith('PROBES'))) if v and isinstance(v[1], str) else v for k, v in outs.items()}
            ref = outs.get(('gcc', 'gcc'))
            files = {'callee.c': UNPROTO_CALLEE, 'caller.c': UNPROTO_CALLER, 'main.c': MAIN}
            if errs or ref is None or ref != outs.get(('clang', 'clang')):
                if any(k[0] == 'chibicc' for k in errs):
                    ctx.violation('C06|compile|unprototyped-call', 'chibicc cannot compile calls through unprototyped declarations: ' + core.first_line(list(errs.values())[0]), files=files)
                else:
                    raise core.Inconclusive('unprototyped-call pair: references fail or disagree: ' + str(errs)[:300])
                continue
            for d in (('chibicc', 'chibicc'), ('chibicc', 'gcc'), ('gcc', 'chibicc')):
                ctx.saw(('unprototyped-call',) + d)
                ctx.evaluations += 1
                o = outs.get(d)
                if o != ref:
                    fd = core.first_diff((o[1] if o and isinstance(o[1], str) else str(o)).encode(), ref[1].encode())
                    ctx.violation('C06|%s->%s|unprototyped-call|arg' % d, 'default argument promotions through an unprototyped declaration: line %s: got %s, gcc->gcc %s' % (fd and fd[0], fd and fd[1], fd and fd[2]), files=files)
            continue
        chunk, callee_c, caller_c = chunks[idx]
        files = {'callee.c': callee_c, 'caller.c': caller_c, 'main.c': MAIN}
        script = ('I=-I$VERIF/rt; gcc -w -c $I main.c -o main.o; for u in callee caller; do CHIBICC_VERIF_PROBES=1 $CHIBICC $I -c -o $u.x.o $u.c || exit 1; gcc -std=gnu11 -w $I -c -o $u.g.o $u.c; done; '
                  'gcc -o gg main.o caller.g.o callee.g.o $RT && ./gg > gg.txt; for p in "x x" "x g" "g x"; do set -- $p; gcc -o t main.o caller.$1.o callee.$2.o $RT && ./t > t.txt; '
                  'cmp -s t.txt gg.txt || { echo "direction caller=$1 callee=$2 differs"; diff t.txt gg.txt | head -5; exit 1; }; done; exit 0')
        if ('gcc', 'callee') in errs or ('gcc', 'caller') in errs or ('clang', 'callee') in errs or ('clang', 'caller') in errs:
            raise core.Inconclusive('reference compiler rejected a generated C06 unit: ' + str(list(errs.items())[:2])[:600])
        for unit in ('callee', 'caller'):
            if ('chibicc', unit) in errs:
                msg = core.first_line(errs[('chibicc', unit)])
                kind = 'abort' if 'Assertion' in errs[('chibicc', unit)] else 'compile-fail'
                ctx.violation('C06|compile|%s|%s' % (unit, kind), 'chibicc cannot compile the %s unit accepted by gcc and clang: %s' % (unit, msg), files=files, script=script)
        ref = outs[('gcc', 'gcc')]
        ref2 = outs[('clang', 'clang')]
        if not ref or ref[0] != 0 or not ref2 or ref2[0] != 0:
            raise core.Inconclusive('reference run failed: %s' % (str(ref)[:300]))
        rl = per_sig(ref[1])
        rl2 = per_sig(ref2[1])
        for (cr, ce) in (('chibicc', 'chibicc'), ('chibicc', 'gcc'), ('gcc', 'chibicc')):
            o = outs[(cr, ce)]
            if o is None:
                continue
            d = '%s->%s' % (cr, ce)
            if o[0] == 'link':
                ctx.violation('C06|%s|link-fail' % d, o[1], files=files, script=script)
                continue
            xl = per_sig(o[1])
            m = re.search(r'PROBES (\d+)', o[1])
            if m:
                probes_n += int(m.group(1))
            pf = re.search(r'PROBE-FAIL (\S+).*', o[1])
            aborted = bool(pf) or o[0] != 0
            for sg in chunk:
                ctx.evaluations += 1
                a = xl.get(sg.k, [])
                b = rl.get(sg.k, [])
                ctx.count('observations', len(b))
                if b != rl2.get(sg.k, []):
                    ctx.count('reference_ambiguous')
                    continue
                if aborted and len(a) < len(b) and a == b[:len(a)]:
                    # the run stopped while this signature was being exercised: charge the abort to it, and only to it
                    tag = sg.tag if sg.tag != 'composite' else 'composite:' + ','.join(sg.desc(i) for i in range(len(sg.params) + len(sg.var)))[:80]
                    key = 'C06|%s|%s|%s' % (d, tag, ('probe:' + pf.group(1)) if pf else 'run-abort')
                    if sg.tag.startswith('probe|'):
                        key = 'C06|%s|%s' % (sg.tag, d)
                    ctx.violation(key, '%s  [%s] run stopped here: %s' % (sg.proto(), d, pf.group(0) if pf else 'exit status %s, tail %s' % (o[0], o[1][-120:])), files=files, script=script)
                    ctx.count('signatures_not_run_after_abort', sum(1 for s2 in chunk if s2.k > sg.k))
                    break
                if a != b:
                    what, detail = first_mismatch(sg, a, b)
                    key = 'C06|%s|%s|%s' % (d, sg.tag if sg.tag != 'composite' else 'composite:' + what, what.split(':')[0])
                    if sg.tag.startswith('probe|'):
                        key = 'C06|%s|%s' % (sg.tag, d)
                    ctx.violation(key, '%s  [%s] %s' % (sg.proto(), d, detail), files=files, script=script)
            mm = re.search(r'999999=(-?\d+)', o[1])
            if mm and mm.group(1) != '0':
                ctx.violation('C06|%s|callee-saved' % d, 'callee-saved register/flag mask %s changed across the call tree' % mm.group(1), files=files, script=script)
    # dedicated probe: a long double operand kept on the x87 stack across a call (callee may use all 8 registers)
    psrc = '#include "vrt.h"\nlong double vrt_x87_heavy(void);\nint main(void) { volatile long double x = 1.5L; long double r = x + vrt_x87_heavy(); OUT(1, &r, 10); return 0; }\n'
    pp = os.path.join(work, 'x87probe.c')
    open(pp, 'w').write(psrc)
    rg = core.build_and_run('gcc', cc, pp, work, 'x87probe')
    rx = core.build_and_run('chibicc', cc, pp, work, 'x87probe')
    ctx.evaluations += 1
    ctx.saw('probe|x87-live-across-call')
    if rg['stage'] == 'run' and (rx['stage'] != 'run' or rx['out'] != rg['out']):
        ctx.violation('C06|probe|x87-live-across-call|chibicc->gcc', 'x + f() with long double x: chibicc %s, gcc %s' % (rx['out'][:40], rg['out'][:40]), files={'x87probe.c': psrc},
                      script='$CHIBICC -I$VERIF/rt -c -o p.o x87probe.c && gcc -o p p.o $RT && ./p > got.txt; gcc -I$VERIF/rt -o q x87probe.c $RT && ./q > ref.txt; cmp -s got.txt ref.txt && exit 0; exit 1')
    # narrow values with dirty upper bits (the psABI leaves them unspecified): returns seen by the caller, arguments seen by the callee
    ty = [('char', 'i8', 0xff, [0x85, 0x7f, 0]), ('unsigned char', 'u8', 0xff, [0x85, 0xff]), ('short', 'i16', 0xffff, [0x8005, 0x7fff]), ('unsigned short', 'u16', 0xffff, [0x8005]),
          ('_Bool', 'bool', 0xff, [1, 0]), ('int', 'i32', 0xffffffff, [0x80000005, 7]), ('unsigned int', 'u32', 0xffffffff, [0x80000005])]
    lines = ['#include "vrt.h"', 'long vrt_garbage(long low, long mask);', 'long vrt_call_garbage(void *fn, long low, long mask);']
    body = []
    n = 0
    for (cn, t, mask, vals) in ty:
        lines.append('long idn_%s(%s x) { return x; }' % (t, cn))
        lines.append('long idc_%s(%s x) { if (x) return 1; return 0; }' % (t, cn))
        for v in vals:
            body.append('{ long r = ((%s (*)(long, long))vrt_garbage)(%dL, %dL); OUTV(%d, r); }' % (cn, v, mask, n)); n += 1
            body.append('{ int c = ((%s (*)(long, long))vrt_garbage)(%dL, %dL) ? 1 : 2; OUTV(%d, c); }' % (cn, v, mask, n)); n += 1
            body.append('OUTV(%d, vrt_call_garbage((void *)idn_%s, %dL, %dL));' % (n, t, v, mask)); n += 1
            body.append('OUTV(%d, vrt_call_garbage((void *)idc_%s, %dL, %dL));' % (n, t, v, mask)); n += 1
    nsrc = '\n'.join(lines) + '\nint main(void) {\n' + '\n'.join(body) + '\nreturn 0;\n}\n'
    pn = os.path.join(work, 'narrow.c')
    open(pn, 'w').write(nsrc)
    rr = {k2: core.build_and_run(k2, cc, pn, work, 'narrow') for k2 in ('gcc', 'clang', 'chibicc')}
    ctx.evaluations += n
    ctx.saw('narrow-dirty-upper-bits')
    if rr['gcc']['stage'] == 'run' and rr['gcc']['out'] == rr['clang']['out']:
        if rr['chibicc']['stage'] != 'run' or rr['chibicc']['out'] != rr['gcc']['out']:
            dd = core.first_diff(rr['chibicc']['out'], rr['gcc']['out']) if rr['chibicc']['stage'] == 'run' else (0, rr['chibicc']['err'][-100:], '')
            ctx.violation('C06|narrow|dirty-upper-bits', 'narrow argument/return value with unspecified upper bits: chibicc %s, gcc = clang %s' % (dd[1], dd[2]), files={'narrow.c': nsrc},
                          script='$CHIBICC -I$VERIF/rt -c -o n.o narrow.c && gcc -o n n.o $RT && ./n > got.txt; gcc -w -I$VERIF/rt -o q narrow.c $RT && ./q > ref.txt; cmp -s got.txt ref.txt && exit 0; diff got.txt ref.txt | head -3; exit 1')
    else:
        ctx.count('narrow_reference_ambiguous')
    for sg in sigs:
        ctx.saw(sg.tag if sg.tag != 'composite' else 'sig:' + ','.join(sg.desc(i) for i in range(len(sg.params))) + '->' + (sg.tname(sg.ret) if sg.ret and not isinstance(sg.ret, Agg) else 'agg' if sg.ret else 'void'))
    ctx.count('statement_probes_executed', probes_n)
    if probes_n == 0:
        ctx.note_inconclusive('probes never executed')
    ctx.sample({'signature': sigs[5].proto(), 'tag': sigs[5].tag})
    ctx.sample({'signature': sigs[-9].proto(), 'tag': sigs[-9].tag})
    ctx.extra['exhaustive_subspaces'] = ['argument class (23) x GP registers used 0..7 x SSE registers used 0..9 (thorough: complete; quick: every state with gp>=4 or fp>=6 plus a third of the rest)']


def per_sig(text):
    d = {}
    for ln in text.split('\n'):
        m = re.match(r'(\d+)[:=]', ln)
        if m:
            d.setdefault(int(m.group(1)) // 1000, []).append(ln)
    return d


def first_mismatch(sg, a, b):
    for i in range(max(len(a), len(b))):
        x = a[i] if i < len(a) else '<missing>'
        y = b[i] if i < len(b) else '<missing>'
        if x != y:
            m = re.match(r'(\d+)', y if y != '<missing>' else x)
            sub = int(m.group(1)) % 1000 if m else -1
            if sub == 999:
                return 'align', 'stack not 16-byte aligned at callee entry'
            if sub >= 900:
                return 'ret', 'return value: got %s expected %s' % (x, y)
            if sub >= 500:
                j = sub - 500
                return 'vararg:%s' % (sg.desc(len(sg.params) + j) if j < len(sg.var) else '?'), 'variadic argument %d: got %s expected %s' % (j, x, y)
            return 'arg:%s' % (sg.desc(sub) if sub < len(sg.params) else '?'), 'parameter %d: got %s expected %s' % (sub, x, y)
    return 'arg', 'logs differ'
