"""C04 - every lvalue designates exactly its object's bytes and bits.

Protocol per access: a wrapper {guard, object, guard} is filled with a position-dependent pattern, a unique value is stored
through the lvalue under test (member paths at any nesting incl. anonymous members, array elements with run-time indices,
pointer forms, bit-fields, op= / ++ on members, whole-aggregate assignment, compound literals), then *every* named leaf
of the object is dumped (raw bytes through its address; bit-fields by value) together with the guards.
Oracle: gcc == clang member-wise dumps.  VLA/alloca programs register every live block with the runtime, which checks
non-overlap, alignment and pattern integrity (absolute invariants); the chibicc build carries the frame probes."""
import os, re, random
from lib import core, cint, ctype

LEVEL = 'exploration'
MIN_COUNTS = {'observations': (100000, 1000000), 'vla_blocks': (3000, 20000)}


def val_for(s, bits, k):
    if s == 'bool' or bits == 1:
        return k & 1
    if s in ('f32', 'f64', 'f80'):
        return (k % 100) + 1
    w = bits if bits is not None else 8 * cint.sizeof(s) if s != 'ptr' else 64
    if s == 'ptr':
        return (k % 1000) + 1
    if cint.signed(s) if s in cint.TYPES else False:
        return (k % (1 << (w - 1))) if w > 1 else 0
    return k % (1 << min(w, 30))


def store_stmt(path, s, v):
    if s == 'ptr':
        return '%s = (char *)%dL;' % (path, v)
    return '%s = %d;' % (path, v)


def dump_all(k, lv, root):
    out = []
    n = 0
    for (path, s, bits) in lv:
        if bits is not None:
            out.append('OUTV(%d, %s);' % (k, path))
        elif s == 'f80':
            out.append('OUT(%d, &%s, 10);' % (k, path))
        else:
            out.append('OUT(%d, &%s, sizeof(%s));' % (k, path, path))
        n += 1
    out.append('OUT(%d, %s.g0, 16); OUT(%d, %s.g1, 16);' % (k, root, k, root))
    return ' '.join(out), n + 2


def dyn_index(path):
    """Replace constant indices by volatile run-time indices (declared by the caller as ix0..ix3 = 0..3)."""
    return re.sub(r'\[(\d)\]', lambda m: '[ix%s]' % m.group(1), path)


def gen_type_cases(k0, ty, rng, storage, lines, body, owners):
    """Emits observations for one aggregate type. Returns number of observation groups used."""
    name = 'T%d' % k0
    ty.tag = name
    kw = '%s %s' % (ty.kind, name)
    lines.append(ty.body() + ';')
    lines.append('struct W%d { char g0[16]; %s obj; char g1[16]; };' % (k0, kw))
    lv = []
    ctype.leaves(ty, 'w.obj', lv, limit=60)
    if not lv:
        return 0
    feats = '+'.join(sorted(f for f in ty.features() if not f.startswith('scalar:') and not f.startswith('bitfield:')))
    pick = rng.sample(lv, min(len(lv), 10))
    k = k0 * 100
    stmts = []
    decl = 'static struct W%d w, w2;' % k0 if storage == 'static' else 'struct W%d w, w2;' % k0
    stmts.append(decl + ' struct W%d *p = &w; volatile int ix0 = 0, ix1 = 1, ix2 = 2, ix3 = 3;' % k0)
    for (path, s, bits) in pick:
        v = val_for(s, bits, rng.randrange(1, 1 << 20))
        forms = ['direct', 'arrow']
        if bits is None:
            forms.append('ptr-to-leaf')
        if '[' in path:
            forms.append('dyn-index')
        if s not in ('ptr', 'f80') and not (s == 'bool'):
            forms += ['op=', 'incdec']
        form = rng.choice(forms)
        mk = 'bitfield:%s:%d' % (s, bits) if bits is not None else 'scalar:%s' % s
        key = 'C04|%s|%s|%s' % (form, 'bitfield' if bits is not None else 'member', feats)
        if form == 'direct':
            st = store_stmt(path, s, v)
        elif form == 'arrow':
            st = store_stmt(path.replace('w.obj', 'p->obj', 1), s, v)
        elif form == 'ptr-to-leaf':
            st = '{ typeof(%s) *q = &%s; %s }' % (path, path, store_stmt('*q', s, v))
        elif form == 'dyn-index':
            st = store_stmt(dyn_index(path), s, v)
        elif form == 'op=':
            a = val_for(s, bits, rng.randrange(1, 50)) & 7
            b = (v & 3) + 1
            op = rng.choice(['+=', '-=', '*=', '|=', '^=', '<<=', '&=']) if s not in ('f32', 'f64') else rng.choice(['+=', '-=', '*='])
            if (s == 'bool' or bits == 1):
                op = '|='
                a, b = a & 1, b & 1
            if bits is not None and bits <= 3 or (s in cint.TYPES and not cint.signed(s) and op == '-='):
                op = '|='
                a, b = a & 1, b & 1
            if op == '<<=':
                b = b & 1
            if bits is not None and bits <= 5:
                a, b = a & 1, b & 1
            st = '%s = %d; %s %s %d;' % (path, a, path.replace('w.obj', 'p->obj', 1), op, b)
        else:
            a = 1 if not (s == 'bool' or bits == 1) else 0
            if bits is not None and bits <= 2:
                st = '%s = 0; %s;' % (path, rng.choice(['%s++', '++%s']) % path)
                if s in cint.TYPES and cint.signed(s) and bits == 1:
                    st = '%s = 0;' % path
            else:
                st = '%s = %d; %s;' % (path, a, rng.choice(['%s++', '++%s', '%s--', '--%s']) % path)
        d, n = dump_all(k, lv, 'w')
        stmts.append('FILLW(&w, sizeof w); %s %s' % (st, d))
        owners += [(key, '%s: %s' % (name, st))] * n
        k += 1
    # whole-aggregate assignment, via pointer, nested member aggregate, compound literal
    d2, n2 = dump_all(k, [(p.replace('w.obj', 'w2.obj', 1), s, b) for (p, s, b) in lv], 'w2')
    stmts.append('FILLW(&w, sizeof w); FILLW2(&w2, sizeof w2); w2.obj = w.obj; %s' % d2)
    owners += [('C04|aggregate-assign|whole|' + feats, name + ': w2.obj = w.obj')] * n2
    k += 1
    stmts.append('FILLW(&w, sizeof w); FILLW2(&w2, sizeof w2); { %s *a = &w2.obj, *b = &p->obj; *a = *b; } %s' % (kw, d2))
    owners += [('C04|aggregate-assign|via-pointer|' + feats, name + ': *a = *b')] * n2
    k += 1
    stmts.append('FILLW(&w, sizeof w); FILLW2(&w2, sizeof w2); w2.obj = (1 ? w.obj : w2.obj); %s' % d2)
    owners += [('C04|aggregate-assign|conditional|' + feats, name + ': w2.obj = c ? a : b')] * n2
    k += 1
    subs = [m for m in ty.members if m.name and isinstance(m.ty, (ctype.Agg, )) and m.bits is None]
    if subs:
        m = rng.choice(subs)
        stmts.append('FILLW(&w, sizeof w); FILLW2(&w2, sizeof w2); w2.obj.%s = w.obj.%s; %s' % (m.name, m.name, d2))
        owners += [('C04|aggregate-assign|nested-member|' + feats, '%s: w2.obj.%s = w.obj.%s' % (name, m.name, m.name))] * n2
        k += 1
    body.append('{\n' + '\n'.join(stmts) + '\n}')
    return 1


VLA_PROG = r'''
#include "vrt.h"
#ifndef __chibicc__
void *alloca(unsigned long);
#endif
static long nid;
static int sink(void *a, void *b, int c) { return c + (a != b); }
/* parameters of variably modified type: the sizes are those the earlier parameters had on entry */
static long vp1(int n, short a[n]) { return a[n - 1] + (long)sizeof(a); }
static long vp2(int n, int k, short a[n][k]) { long s = 0; for (int i = 0; i < n; i++) for (int j = 0; j < k; j++) s += a[i][j] * (i * 10 + j + 1); return s * 100 + sizeof(a[0]); }
static long vp3(int k, short (*a)[k]) { return (long)sizeof(*a) * 1000 + ((char *)(a + 1) - (char *)a) * 10 + (&a[2] - a); }
static long vp4(int n, int k, short a[][k]) { long before = sizeof(a[0]); k = 1000; n = 1000; return before * 1000 + sizeof(a[0]) + (a[1] - a[0]); }
static long vp5(int k, long (*cb)(int kk, short (*)[kk]), short (*a)[k]) { return cb(k, a) + 1; }
static long vp6(int n, int k, short (*a)[n][k]) { return sizeof(*a) * 10000 + sizeof((*a)[0]) * 100 + sizeof((*a)[0][0]) + ((char *)&(*a)[1][1] - (char *)a); }
static void rec(int n, int depth) {
  long base = nid; nid += 10;
  char a[n];
  REG(base + 0, a, n, 1);
  OUTV(1, sizeof a);
  int b[n / 4 + 1];
  REG(base + 1, b, sizeof b, 4);
  OUTV(2, sizeof b);
  long (*m)[n % 7 + 1] = alloca(sizeof(long[3][n % 7 + 1]));
  REG(base + 2, m, sizeof(long[3][n % 7 + 1]), 16);
  OUTV(3, sizeof *m);
  short c[n % 5 + 1][n % 3 + 2];
  REG(base + 3, c, sizeof c, 2);
  OUTV(4, sizeof c + sizeof c[0]);
  CHECKPAT(-1);
  if (depth > 0) rec(n / 2 + 3, depth - 1);
  CHECKPAT(-1);
  /* alloca while temporaries are pending on the stack (argument list of a call inside an expression) */
  void *p1, *p2;
  int r = 1 + sink(p1 = alloca(n % 64 + 1), p2 = alloca(n % 32 + 8), n) + 2 * (sink(alloca(8), alloca(24), 1) + 3);
  REG(base + 4, p1, n % 64 + 1, 16);
  REG(base + 5, p2, n % 32 + 8, 16);
  OUTV(5, r);
  CHECKPAT(-1);
  for (int i = 0; i < 3; i++) {
    char d[i * n % 17 + 1];
    REG(base + 6, d, sizeof d, 1);
    long double *q = alloca(16);
    REG(base + 7, q, 16, 16);
    CHECKPAT(-1);
    UNREG(base + 6);
    UNREG(base + 7);   /* the block of this iteration stays allocated, but is reused as scratch by nothing: keep it out of the overlap set */
  }
  CHECKPAT(-1);
  /* pointer arithmetic on pointers to variable length arrays: every form moves by whole rows (sizeof *pm bytes) */
  {
    long (*pm)[n % 7 + 1] = m, (*pe)[n % 7 + 1] = m + 2, (*pt)[n % 7 + 1];
    long row = sizeof *pm;
    OUTV(6, ((char *)(pm + 2) - (char *)m) / row); OUTV(6, ((char *)(pe - 1) - (char *)m) / row); OUTV(6, ((char *)(pe - 2) - (char *)m) / row);
    pt = pe; pt -= 1; OUTV(6, ((char *)pt - (char *)m) / row); pt -= 1; OUTV(6, ((char *)pt - (char *)m) / row);
    pt = pm; pt += 2; OUTV(6, ((char *)pt - (char *)m) / row); pt--; OUTV(6, ((char *)pt - (char *)m) / row); ++pt; OUTV(6, ((char *)pt - (char *)m) / row);
    OUTV(6, pe - pm); OUTV(6, &pm[2] - pm); OUTV(6, (char *)&pe[-1] - (char *)m == row); OUTV(6, (char *)(1 + pm) - (char *)m == row);
    int kk = 2; OUTV(6, ((char *)(pe - kk) - (char *)m)); OUTV(6, ((char *)(pm + kk) - (char *)m) == 2 * row);
    OUTV(6, &(*(pe - 1))[0] == &m[1][0]); OUTV(6, &(pe - 2)[1][n % 7] == &m[1][n % 7]);
    short (*pc)[n % 3 + 2] = c + 1; OUTV(6, (char *)(pc - 1) - (char *)c); OUTV(6, (char *)(pc + 0) - (char *)c == (long)sizeof c[0]);
  }
  CHECKPAT(-1);
  {
    int r = n % 5 + 1, k = n % 3 + 2;
    OUTV(7, vp1(k, c[0])); OUTV(7, vp2(r, k, c)); OUTV(7, vp3(k, c)); OUTV(7, vp4(r, k, c)); OUTV(7, vp5(k, vp3, c)); OUTV(7, vp6(r, k, &c));
  }
  CHECKPAT(-1);
  for (int i = 0; i < 6; i++) UNREG(base + i);
}
int main(void) {
  static const int sizes[] = {SIZES};
  for (unsigned i = 0; i < sizeof sizes / sizeof *sizes; i++) { dirty_stack(); rec(sizes[i], DEPTH); }
  return 0;
}
'''


def bigindex_tu(rng, n):
    """Array-subscript / pointer-arithmetic address computation far from the base (element size x index > 2^31): pure address
    arithmetic inside one 6 GiB PROT_NONE reservation, nothing is dereferenced.  Returns (source, owners)."""
    elems = [('char', 1), ('short', 2), ('int', 4), ('long', 8), ('long double', 16), ('struct B24', 24), ('struct B4096', 4096), ('int [1000]', 4000)]
    itypes = ['int', 'unsigned', 'long', 'unsigned long', 'short', 'unsigned char', 'long long']
    lim = {'int': (-2**31, 2**31 - 1), 'unsigned': (0, 2**32 - 1), 'long': (-2**63, 2**63 - 1), 'unsigned long': (0, 2**64 - 1), 'short': (-2**15, 2**15 - 1),
           'unsigned char': (0, 255), 'long long': (-2**63, 2**63 - 1)}
    forms = [('subscript', '&p[i]'), ('add', 'p + i'), ('add-commuted', 'i + p'), ('sub', 'p - i'), ('reverse-subscript', '&i[p]'), ('compound', '(q = p, q += i, q)'),
             ('compound-sub', '(q = p, q -= i, q)'), ('incr-loop', None), ('diff', None)]
    lines = ['#include "vrt.h"', 'struct B24 { long a, b, c; }; struct B4096 { char b[4096]; };',
             'void *mmap(void *, unsigned long, int, int, int, long);', 'int main(void) {',
             '  char *base = mmap(0, 6UL << 30, 0, 0x4022, -1, 0);   /* PROT_NONE, MAP_PRIVATE|MAP_ANONYMOUS|MAP_NORESERVE */',
             '  if (base == (char *)-1) return 3;', '  base += 3UL << 30;']
    owners = []
    k = 0
    span = (3 << 30) - 8192
    for _ in range(n):
        (et, es) = rng.choice(elems)
        it = rng.choice(itypes)
        lo, hi = lim[it]
        mag = rng.choice([span // es, (2**31) // es, (2**31) // es + 1, (2**32) // es - 1, (2**31) // es - 1, rng.randrange(0, span // es + 1), 3, 1, 0])
        v = min(mag, span // es)
        if rng.random() < 0.4:
            v = -v
        v = max(lo, min(hi, v))
        (fname, fexpr) = rng.choice(forms)
        cls = 'beyond-2^31' if abs(v) * es >= 2**31 else 'small'
        decl = 'typedef %s E%d%s;' % (et.split(' [')[0], k, '[1000]' if '[' in et else '')
        if fname == 'incr-loop':
            body = '{ %s E%d *p = (E%d *)base, *q = p; %s i = %d; q = &p[i]; q++; ++q; q--; OUTV(%d, (char *)q - (char *)p); }' % (decl, k, k, it, v, k)
        elif fname == 'diff':
            body = '{ %s E%d *p = (E%d *)base; long off = %dL; E%d *q = (E%d *)(base + off * %d); OUTV(%d, q - p); }' % (decl, k, k, v, k, k, es, k)
        else:
            if fname in ('sub', 'compound-sub'):
                pass
            body = '{ %s E%d *p = (E%d *)base, *q; %s i = %d; (void)q; OUTV(%d, (char *)(%s) - (char *)p); }' % (decl, k, k, it, v, k, fexpr)
        lines.append('  ' + body)
        owners.append(('C04|index-scale|%s|%s|elem%d|%s' % (fname, it.replace(' ', '-'), es, cls), '%s with %s index %d on elements of %d bytes' % (fname, it, v, es)))
        k += 1
    lines.append('  return 0; }')
    return '\n'.join(lines) + '\n', owners


def sidefx_tu(rng):
    """(1) `A.x op= C`, `A.x++` where the base expression A has side effects (evaluated exactly once);
    (2) partially initialised automatic objects and compound literals of every size 1..40 on a dirtied stack (every byte the
        initializer does not mention reads as zero)."""
    lines = [PRELUDE, 'struct SE { int x; unsigned f : 5; long g : 40; char c; short h : 9; };', 'static struct SE arr[4]; static int idx; static struct SE *ptr; static int calls;',
             'static struct SE *nextp(void) { calls++; return &arr[calls & 3]; }', 'static int nexti(void) { calls++; return calls & 3; }',
             'static void reset(void) { for (int k = 0; k < 4; k++) { arr[k].x = k * 10 + 1; arr[k].f = k + 1; arr[k].g = k * 1000 + 7; arr[k].c = k + 2; arr[k].h = k - 2; } idx = 0; ptr = arr; calls = 0; }',
             'static void dumpall(long id) { for (int k = 0; k < 4; k++) { OUTV(id, arr[k].x); OUTV(id, arr[k].f); OUTV(id, arr[k].g); OUTV(id, arr[k].c); OUTV(id, arr[k].h); } OUTV(id, idx); OUTV(id, ptr - arr); OUTV(id, calls); }']
    owners = []
    body = []
    forms = []
    for mem in ('x', 'f', 'g', 'c', 'h'):
        for op in ('+= 5', '-= 3', '|= 8', '*= 2', '<<= 1', '^= 1', '%= 3'):
            for base in ('arr[idx++].%s', 'ptr++->%s', 'nextp()->%s', 'arr[nexti()].%s', '(*(ptr += 2)).%s', 'arr[idx += 1, idx].%s', '(idx++, arr[2]).%s' if False else 'arr[++idx].%s'):
                forms.append(('%s %s;' % (base % mem, op), 'op=|%s|%s' % (mem, base.split('.')[0].replace('%s', ''))))
        for base in ('arr[idx++].%s', 'ptr++->%s', 'nextp()->%s'):
            forms += [('%s++;' % (base % mem), 'post++|%s' % mem), ('++%s;' % (base % mem), 'pre++|%s' % mem), ('%s--;' % (base % mem), 'post--|%s' % mem)]
            if base.startswith('nextp'):
                forms.append(('{ long t = %s++; t += ++%s; OUTV(7777, t); }' % (base % mem, base % mem), 'value-of-++|%s' % mem))
    rng.shuffle(forms)
    k = 0
    for stmt, fk in forms[:160]:
        body.append('reset(); %s dumpall(%d);' % (stmt, k))
        owners += [('C04|member-update-with-side-effect-base|%s' % fk, stmt)] * (24 if fk.startswith('value-of') else 23)
        k += 1
    # partially initialised locals
    pl = []
    for n in range(1, 41):
        pl.append(('char b[%d] = {1};' % n, 'b', n, 'char-array'))
        if n >= 3:
            pl.append(('char b[%d] = "ab";' % n, 'b', n, 'string'))
        pl.append(('struct { char c[%d]; } b = {{2}};' % n, '&b', n, 'struct'))
        if n % 4 == 0:
            pl.append(('int b[%d] = {7};' % (n // 4), 'b', n, 'int-array'))
        pl.append(('char *q = (char [%d]){3};' % n, 'q', n, 'compound-literal'))
        pl.append(('char b[%d] = {};' % n, 'b', n, 'empty-braces'))
        pl.append(('char b[%d] = {[%d] = 9};' % (n, n - 1), 'b', n, 'last-designated'))
    fns = []
    for j, (decl, ref, n, kind) in enumerate(pl):
        fns.append('static void pi%d(void) { %s OUT(%d, %s, %d); }' % (j, decl, 100000 + j, ref, n))
        body.append('dirty_stack(); pi%d();' % j)
        owners.append(('C04|partial-init-local|%s|size%%8=%d' % (kind, n % 8), decl))
    src = '\n'.join(lines) + '\n' + '\n'.join(fns) + '\nint main(void) {\n' + '\n'.join(body) + '\nreturn 0; }\n'
    return src, owners


def selfcheck_tu(rng):
    """Reference-free probes (the expected value is known by construction):
    - packed structs with bit-fields of every base type: each field is written and read back (value modulo width, sign), its neighbours keep theirs
      - whatever the layout (the layout of packed bit-fields is an open C08 finding, the accesses must be consistent with it);
    - objects with static storage duration and an _Alignas stricter than 16 (scalars, arrays of 16 bytes or more, structs; file scope, static local, tentative);
    - parameters passed on the stack (long double and structs containing one after an odd / even number of eightbytes): values and addresses seen by the callee."""
    lines = ['#include "vrt.h"']
    body = []
    exp = []
    owners = []
    k = 0
    bases = [('signed char', 8, True), ('unsigned char', 8, False), ('short', 16, True), ('unsigned short', 16, False), ('int', 32, True), ('unsigned', 32, False), ('long', 64, True), ('unsigned long', 64, False)]
    for t in range(40):
        nf = rng.randrange(2, 7)
        fields = []
        for f in range(nf):
            (bt, w, sg) = rng.choice(bases)
            fields.append((bt, rng.randrange(1, w + 1), sg))
        packed = rng.random() < 0.8
        lines.append('struct %s PB%d { %s char tail; };' % ('__attribute__((packed))' if packed else '', t, ' '.join('%s f%d : %d;' % (bt, i, w) for i, (bt, w, sg) in enumerate(fields))))
        vals = []
        for i, (bt, w, sg) in enumerate(fields):
            raw = rng.choice([(1 << w) - 1, 1 << (w - 1), (1 << (w - 1)) - 1, rng.getrandbits(w), 1, 0x5555555555555555 & ((1 << w) - 1)])
            vals.append(raw - (1 << w) if (sg and raw >> (w - 1)) else raw)
        stmts = ['struct PB%d x; memset(&x, %s, sizeof x);' % (t, rng.choice(['0', '0xff', '0x5a']))]
        order = list(range(nf))
        rng.shuffle(order)
        for i in order:
            stmts.append('x.f%d = %s;' % (i, '%dUL' % vals[i] if vals[i] >= (1 << 63) else '(-9223372036854775807L-1)' if vals[i] == -(1 << 63) else '%dL' % vals[i]))
        stmts.append('x.tail = 77;')
        for i in range(nf):
            stmts.append('OUTV(%d, x.f%d);' % (k, i))
            exp.append('%d=%d' % (k, vals[i] if vals[i] < (1 << 63) else vals[i] - (1 << 64)))
            owners.append(('C04|selfcheck|%sbit-field-readback|%s:%d' % ('packed-' if packed else '', fields[i][0].replace(' ', '-'), fields[i][1]), 'struct PB%d field f%d' % (t, i)))
        stmts.append('OUTV(%d, x.tail);' % k)
        exp.append('%d=77' % k)
        owners.append(('C04|selfcheck|bit-field-neighbour', 'struct PB%d tail' % t))
        body.append('{ %s }' % ' '.join(stmts))
        k += 1
    lines.append('void *memset(void *, int, unsigned long);')
    # over-aligned static objects
    aligned = []
    for j, (decl, al) in enumerate([('_Alignas(64) char oa%d[64]', 64), ('_Alignas(32) int oa%d[8]', 32), ('static _Alignas(128) char oa%d[20]', 128), ('_Alignas(64) char oa%d[200] = {1}', 64),
                                    ('static _Alignas(32) long oa%d[5] = {1, 2}', 32), ('_Alignas(64) int oa%d', 64), ('static _Alignas(256) struct { char c[40]; } oa%d', 256), ('_Alignas(32) char oa%d[16]', 32),
                                    ('_Alignas(4096) char oa%d[17]', 4096), ('_Alignas(32) double oa%d[2] = {1.5}', 32)]):
        lines.append(decl % j + ';')
        body.append('OUTV(%d, (unsigned long)&oa%d %% %d);' % (k, j, al))
        exp.append('%d=0' % k)
        owners.append(('C04|selfcheck|static-object-alignment|%s' % decl.split(' oa')[0].replace(' ', '-'), decl % j))
        k += 1
    body.append('{ static _Alignas(64) char sl[33]; static _Alignas(32) short sl2[16] = {3}; OUTV(%d, (unsigned long)sl %% 64 + (unsigned long)sl2 %% 32); }' % k)
    exp.append('%d=0' % k)
    owners.append(('C04|selfcheck|static-object-alignment|static-local', 'static locals'))
    k += 1
    # stack-passed parameters
    lines.append('struct LDS { long double v; int t; };')
    for j, nlong in enumerate([6, 7, 8, 9, 10]):
        ps = ', '.join('long a%d' % i for i in range(nlong))
        lines.append('static long sp%d(%s, long double x, char c, long double y, struct LDS s, long double z) { OUTV(%d, (long)x * 1000 + c * 100 + (long)y * 10 + s.t + (long)s.v + (long)z * 7 + a%d); '
                     'OUTV(%d, (unsigned long)&x %% 16 + (unsigned long)&y %% 16 + (unsigned long)&s %% 16 + (unsigned long)&z %% 16); return 0; }' % (j, ps, k, nlong - 1, k))
        body.append('{ struct LDS s = {4.0L, 5}; sp%d(%s, 2.0L, 3, 6.0L, s, 8.0L); }' % (j, ', '.join(str(i + 1) for i in range(nlong))))
        exp += ['%d=%d' % (k, 2000 + 300 + 60 + 5 + 4 + 56 + nlong), '%d=0' % k]
        owners += [('C04|selfcheck|stack-parameter|value|%d-gp-args' % nlong, 'sp%d' % j), ('C04|selfcheck|stack-parameter|alignment|%d-gp-args' % nlong, 'sp%d' % j)]
        k += 1
    src = '\n'.join(lines) + '\nint main(void) {\n' + '\n'.join(body) + '\nreturn 0; }\n'
    return src, exp, owners


def run_selfcheck(a):
    (idx, cc, work, src) = a
    p = os.path.join(work, 'sc%d.c' % idx)
    open(p, 'w').write(src)
    r = core.build_and_run('chibicc', cc, p, work, 'sc%d' % idx, timeout=60, probes=True, run_env={'VERIF_PROBE_REPORT': '1'})
    g = core.build_and_run('gcc', cc, p, work, 'sc%dg' % idx, timeout=60)
    os.unlink(p)
    return idx, r, g


def run_tu(a):
    (idx, cc, work, src, probes) = a
    p = os.path.join(work, 'tu%d.c' % idx)
    open(p, 'w').write(src)
    res = {k: core.build_and_run(k, cc, p, work, 'tu%d' % idx, timeout=60, probes=probes, run_env={'VERIF_PROBE_REPORT': '1'}) for k in ('chibicc', 'gcc', 'clang')}
    os.unlink(p)
    return idx, res


PRELUDE = '''#include "vrt.h"
static void FILLW(void *p, unsigned long n) { unsigned char *q = p; for (unsigned long i = 0; i < n; i++) q[i] = (unsigned char)(i * 7 + 3); }
static void FILLW2(void *p, unsigned long n) { unsigned char *q = p; for (unsigned long i = 0; i < n; i++) q[i] = (unsigned char)(i * 13 + 101); }
'''


ADDR_OF_ARRAY = r'''
#include "vrt.h"
/* &array is a pointer to the whole array: *&a has the array's size and &a + 1 points past its last element */
static int ga[3]; static long gb[2][5]; static struct { char pad; char c[7]; short t; } gs;
int main(void) {
  int la[4]; char lc[9]; double ld[2][3];
  OUTV(1, sizeof(*&ga)); OUTV(2, sizeof(*&gb)); OUTV(3, sizeof(*&gs.c)); OUTV(4, sizeof(*&la)); OUTV(5, sizeof(*&lc)); OUTV(6, sizeof(*&ld)); OUTV(7, sizeof(*&gb[1])); OUTV(8, sizeof(*&ld[0]));
  OUTV(11, (char *)(&ga + 1) - (char *)ga); OUTV(12, (char *)(&gb + 1) - (char *)gb); OUTV(13, (char *)(&gs.c + 1) - (char *)gs.c); OUTV(14, (char *)(&la + 1) - (char *)la);
  OUTV(15, (char *)(&lc + 1) - (char *)lc); OUTV(16, (char *)(&ld + 1) - (char *)ld); OUTV(17, (char *)(&gb[0] + 1) - (char *)gb); OUTV(18, (char *)(&ld[1] - 1) - (char *)ld);
  OUTV(21, (char *)&(&ga)[1] - (char *)ga); OUTV(22, (char *)&(&lc)[1] - (char *)lc); OUTV(23, (char *)(1 + &gb) - (char *)gb);
  /* controls: forms that do not take the address of an array */
  int (*pa)[3] = (void *)ga; long (*pb)[5] = gb;
  OUTV(31, sizeof(*pa)); OUTV(32, (char *)(pa + 1) - (char *)pa); OUTV(33, (char *)(pb + 1) - (char *)pb); OUTV(34, (char *)&ga[3] - (char *)ga); OUTV(35, (char *)&gs.t - (char *)&gs);
  return 0;
}
'''


def addr_of_array_probe(ctx, cc, work):
    """Dedicated probe (open finding): the type of &array."""
    p = os.path.join(work, 'addr_of_array.c')
    open(p, 'w').write(ADDR_OF_ARRAY)
    res = {k: core.build_and_run(k, cc, p, work, 'aoa', timeout=60) for k in ('chibicc', 'gcc', 'clang')}
    ctx.evaluations += 1
    g, c, x = res['gcc'], res['clang'], res['chibicc']
    if g['stage'] != 'run' or c['stage'] != 'run' or g['out'] != c['out']:
        raise core.Inconclusive('reference failed on the address-of-array probe')
    files = {'tu.c': ADDR_OF_ARRAY}
    script = '$CHIBICC -I$VERIF/rt -c -o tu.o tu.c && gcc -o tu.exe tu.o $RT && ./tu.exe > got.txt; gcc -w -I$VERIF/rt -o ref.exe tu.c $RT && ./ref.exe > ref.txt; cmp -s got.txt ref.txt && exit 0; diff got.txt ref.txt | head; exit 1'
    if x['stage'] != 'run' or x['rc'] != 0:
        ctx.violation('C04|probe|address-of-array|%s' % ('rejected' if x['stage'] == 'compile' else 'crash'), core.first_line(x['err'].decode('utf-8', 'replace')), files=files, script=script)
        return
    ref = dict(l.split('=', 1) if '=' in l else l.split(':', 1) for l in g['out'].decode().split('\n') if l and (('=' in l) or (':' in l)))
    got = dict(l.split('=', 1) if '=' in l else l.split(':', 1) for l in x['out'].decode().split('\n') if l and (('=' in l) or (':' in l)))
    for k in sorted(ref, key=lambda z: int(re.sub(r'\D', '', z) or 0)):
        ident = int(re.sub(r'\D', '', k) or 0)
        form = 'sizeof-deref' if ident < 10 else 'plus-one' if ident < 20 else 'subscript-one' if ident < 30 else 'control'
        ctx.count('address_of_array_observations')
        ctx.saw('address-of-array:%s:%d' % (form, ident))
        if got.get(k) != ref[k]:
            ctx.violation('C04|probe|address-of-array|%s' % form, 'observation %s: chibicc %s, gcc = clang %s' % (k, got.get(k), ref[k]), files=files, script=script)


def run(ctx):
    cc = ctx.build('plain')
    work = ctx.tmpdir('c04')
    rng = ctx.rng
    addr_of_array_probe(ctx, cc, work)
    ctx.rule = ('access = (aggregate type, leaf lvalue, access form) with the whole object and two guards refilled before and every named leaf dumped '
                'after; forms: direct / -> / pointer to leaf / run-time index / op= / ++ -- / whole-aggregate assignment (4 variants); VLA/alloca blocks are '
                'registered with the runtime (overlap, alignment, pattern); distinct = distinct (form, member kind, type feature set) keys + VLA size classes')
    ctx.assumptions += ['oracle: gcc -O0 == clang -O0 on member-wise dumps; padding bytes are never compared', 'packed aggregates are not generated here (C08 carries the packed findings)']
    tus = []
    ntypes = ctx.scale(2400, 30000)
    per = 12
    k = 0
    while k < ntypes:
        lines, body, owners = [PRELUDE], [], []
        for j in range(per):
            g = ctype.Gen(rng, packed=False, max_depth=rng.choice([1, 2, 3]), max_members=rng.choice([2, 4, 6]), flex=False, ldouble=True)
            ty = g.agg(0)
            gen_type_cases(k, ty, rng, rng.choice(['static', 'auto']), lines, body, owners)
            k += 1
        fns = ['static void t%d(void) %s' % (i, b) for i, b in enumerate(body)]
        calls = ' '.join('dirty_stack(); t%d();' % i for i in range(len(body)))
        src = '\n'.join(lines) + '\n' + '\n'.join(fns) + '\nint main(void) { %s return 0; }\n' % calls
        tus.append((src, owners, 'access'))
    for i in range(ctx.scale(4, 40)):
        src, owners = bigindex_tu(rng, 400)
        tus.append((src, owners, 'access'))
    for i in range(ctx.scale(2, 12)):
        src, owners = sidefx_tu(rng)
        tus.append((src, owners, 'access'))
    # VLA / alloca programs
    nv = ctx.scale(24, 200)
    for i in range(nv):
        sizes = [rng.choice([0, 1, 2, 7, 8, 15, 16, 17, 31, 33, 63, 64, 100, 255, 256, 1000, 4095, 4096, rng.randrange(0, 4097)]) for _ in range(rng.randrange(4, 12))]
        src = VLA_PROG.replace('SIZES', ', '.join(map(str, sizes))).replace('DEPTH', str(rng.choice([0, 1, 3, 6])))
        tus.append((src, None, 'vla'))
    results = core.pmap(run_tu, [(i, cc, work, t[0], True) for i, t in enumerate(tus)])
    amb = 0
    probes = 0
    for idx, res in results:
        src, owners, what = tus[idx]
        g, c, x = res['gcc'], res['clang'], res['chibicc']
        if g['stage'] != 'run' or c['stage'] != 'run' or g['rc'] != 0 or c['rc'] != 0:
            raise core.Inconclusive('reference failed on a generated %s TU: %s' % (what, (g['err'] + c['err']).decode('utf-8', 'replace')[-500:]))
        files = {'tu.c': src}
        script = ('CHIBICC_VERIF_PROBES=1 $CHIBICC -I$VERIF/rt -c -o tu.o tu.c && gcc -o tu.exe tu.o $RT && ./tu.exe > got.txt; gcc -w -I$VERIF/rt -o ref.exe tu.c $RT && ./ref.exe > ref.txt; '
                  'cmp -s got.txt ref.txt && exit 0; diff got.txt ref.txt | head; exit 1')
        lx = x['out'].decode('utf-8', 'replace').split('\n')[:-1] if x['stage'] == 'run' else []
        for l in lx:
            if l.startswith('PROBES '):
                probes += int(l.split()[1])
        pf = [l for l in lx if l.startswith('PROBE-FAIL')]
        if pf:
            ctx.violation('C04|%s|probe|%s' % (what, pf[0].split()[1]), 'frame probe fired: ' + pf[0], files=files, script=script)
            continue
        if x['stage'] != 'run' or x['rc'] != 0:
            ctx.violation('C04|%s|tu-%s-fail' % (what, x['stage']), 'chibicc failed (%s rc=%s): %s' % (x['stage'], x['rc'], core.first_line(x['err'].decode('utf-8', 'replace'))), files=files, script=script)
            continue
        lg, lc = [[l for l in r['out'].decode().split('\n')[:-1] if not l.startswith('PROBES ')] for r in (g, c)]
        lx = [l for l in lx if not l.startswith('PROBES ')]
        if what == 'vla':
            for l in lx:
                m = re.match(r'(MISALIGNED|OVERLAP|CLOBBERED)', l)
                if m:
                    ctx.violation('C04|vla-alloca|%s' % m.group(1).lower(), 'runtime object registry: ' + l, files=files, script=script)
            refbad = [l for l in lg + lc if re.match(r'(MISALIGNED|OVERLAP|CLOBBERED)', l)]
            if refbad:
                raise core.Inconclusive('registry fired on a reference build (harness bug): ' + refbad[0])
            ctx.count('vla_blocks', sum(1 for l in lx if l.startswith('1=')) * 8)
            ctx.evaluations += len(lx)
            ctx.saw('vla:' + core.sha(src))
            vx = [l for l in lx if '=' in l]
            vg = [l for l in lg if '=' in l]
            if vx != vg and lg == lc:
                d = core.first_diff('\n'.join(vx).encode(), '\n'.join(vg).encode())
                ctx.violation('C04|vla-alloca|value', 'sizeof/values differ: chibicc %s, gcc = clang %s' % (d[1], d[2]), files=files, script=script)
            continue
        if len(lg) != len(owners) or len(lc) != len(owners):
            raise core.Inconclusive('reference printed %d/%d lines, expected %d' % (len(lg), len(lc), len(owners)))
        ctx.evaluations += len(owners)
        ctx.count('observations', len(owners))
        if len(lx) != len(owners):
            ctx.violation('C04|access|output-shape', 'chibicc build printed %d lines, expected %d' % (len(lx), len(owners)), files=files, script=script)
            continue
        for ln, (key, desc) in enumerate(owners):
            ctx.saw(key)
            if lg[ln] != lc[ln]:
                amb += 1
                continue
            if lx[ln] != lg[ln]:
                ctx.violation(key, '%s: dumped leaf/guard line %d: chibicc %s, gcc = clang %s' % (desc, ln, lx[ln], lg[ln]), files=files, script=script)
    # reference-free self-checks
    scs = [selfcheck_tu(rng) for _ in range(ctx.scale(6, 60))]
    for idx, r, g in core.pmap(run_selfcheck, [(i, cc, work, t[0]) for i, t in enumerate(scs)]):
        src, exp, owners = scs[idx]
        files = {'tu.c': src, 'expected.txt': '\n'.join(exp) + '\n'}
        script = 'CHIBICC_VERIF_PROBES=1 $CHIBICC -I$VERIF/rt -c -o tu.o tu.c && gcc -o tu.exe tu.o $RT && ./tu.exe | grep -v PROBES > got.txt; cmp -s got.txt expected.txt && exit 0; diff got.txt expected.txt | head -4; exit 1'
        # the expectations are constructed, but a gcc build is run as a sanity check of the construction (non-packed units only differ in layout, not in these values)
        gl = [l for l in g['out'].decode('utf-8', 'replace').split('\n')[:-1] if not l.startswith('PROBES')] if g['stage'] == 'run' else None
        if gl is not None and gl != exp:
            raise core.Inconclusive('self-check expectation disagrees with the gcc build (harness bug): ' + str(core.first_diff('\n'.join(gl).encode(), '\n'.join(exp).encode())))
        if r['stage'] != 'run' or r['rc'] != 0:
            ctx.violation('C04|selfcheck|tu-%s-fail' % r['stage'], 'chibicc failed on the self-check unit: ' + core.first_line(r['err'].decode('utf-8', 'replace')) + r['out'].decode('utf-8', 'replace')[-120:], files=files, script=script)
            continue
        lx = [l for l in r['out'].decode('utf-8', 'replace').split('\n')[:-1] if not l.startswith('PROBES')]
        ctx.evaluations += len(exp)
        ctx.count('observations', len(exp))
        ctx.count('selfcheck_observations', len(exp))
        if len(lx) != len(exp):
            ctx.violation('C04|selfcheck|output-shape', 'printed %d lines, expected %d' % (len(lx), len(exp)), files=files, script=script)
            continue
        for ln, (a1, b1) in enumerate(zip(lx, exp)):
            ctx.saw(owners[ln][0])
            if a1 != b1:
                ctx.violation(owners[ln][0], '%s: got %s, expected %s' % (owners[ln][1], a1, b1), files=files, script=script)
    ctx.count('reference_ambiguous', amb)
    ctx.count('statement_probes_executed', probes)
    if amb > 0.02 * max(1, ctx.counts.get('observations', 1)):
        ctx.note_inconclusive('gcc and clang disagree on %d observations' % amb)
    if probes == 0:
        ctx.note_inconclusive('statement probes never executed')
    ctx.sample({'access_tu_excerpt': tus[0][0][300:1500]})
