"""C15 - linkage, storage duration and symbol emission in every configuration.

(A) unit monitor: generated translation units with every legal declaration sequence per identifier (extern / tentative /
    initialised / static / thread-local / incomplete-array repeats, _Alignas), functions of every linkage flavour and a
    random reference graph over static inline functions (calls, address-taking, static-local and file-scope initialisers,
    cycles).  The object's symbol table (readelf) is compared entry by entry (binding, class text/object/tls/common/undef,
    type, size) with gcc -O0 and clang -O0; a static inline function must also obey a reachability model written here.
(B) link monitor: programs of 2-4 units sharing objects, functions, TLS, static locals in header inline functions and
    string literals are built as default, -fno-common, -fPIC, -fPIC shared library (+PIC or non-PIC main), -static and
    mixed gcc/chibicc objects; every build must link and print what the gcc and the clang build print (values, identity of
    addresses across units, alignment, per-thread TLS)."""
import os, re, random, shutil
from lib import core

LEVEL = 'exploration'
MIN_COUNTS = {'units_compared': (800, 18000), 'symbols_compared': (8000, 180000), 'link_builds': (500, 14000)}

STRUCT = 'struct S { char c; double d; int a[2]; };\n'
# name, declarator format, size, required alignment, initializer
TYPES = [('char', 'char %s', 1, 1, "'c'"), ('short', 'short %s', 2, 2, '-3'), ('int', 'int %s', 4, 4, '42'), ('long', 'long %s', 8, 8, '1L << 40'),
         ('double', 'double %s', 8, 8, '2.5'), ('ldouble', 'long double %s', 16, 16, '1.5L'), ('ptr', 'int *%s', 8, 8, '0'),
         ('arr3', 'int %s[3]', 12, 4, '{1, 2, 3}'), ('arr4', 'int %s[4]', 16, 16, '{1, 2, 3, 4}'), ('carr20', 'char %s[20]', 20, 16, '"hello"'),
         ('struct', 'struct S %s', 24, 8, '{1, 2.0, {3}}'), ('bool', '_Bool %s', 1, 1, '1'), ('sarr', 'struct S %s[2]', 48, 16, '{{1}, {2}}')]

EXT_PATTERNS = ['T', 'T,T', 'E,T', 'T,E', 'I', 'E,I', 'I,E', 'T,I', 'I,T', 'T,I,T', 'E', 'E,E', 'T,T,T', 'E,T,E,T', 'E,T,I']
INT_PATTERNS = ['S', 'S,S', 'SI', 'S,SI', 'SI,S', 'S,E', 'S,E,SI', 'S,SI,S', 'S,S,S']
TLS_PATTERNS = ['L', 'LI', 'EL,L', 'EL,LI', 'SL', 'SLI', 'EL', 'L,EL']
ARR_PATTERNS = ['A', 'A,An', 'An,A', 'EA,AnI', 'A,A', 'EA,A', 'A,AI']
FN_KINDS = ['ext', 'ext', 'static', 'static', 'si', 'si', 'si', 'si', 'ei', 'pi_ext', 'ext_pi', 'sdecl_si', 'undef', 'undef']


def gen_unit(rng, idx):
    """One translation unit.  Returns (source, info) with info[name] = dict(pattern=..., kind=...)"""
    nv = rng.randrange(4, 10)
    nf = rng.randrange(4, 10)
    info = {}
    decls = []          # (order key, text)
    vnames = []
    for i in range(nv):
        name = 'v%d' % i
        r = rng.random()
        al = ''
        if r < 0.45:
            t = rng.choice(TYPES)
            pat = rng.choice(EXT_PATTERNS)
            fam = 'ext'
        elif r < 0.7:
            t = rng.choice(TYPES)
            pat = rng.choice(INT_PATTERNS)
            fam = 'int'
        elif r < 0.85:
            t = rng.choice(TYPES)
            pat = rng.choice(TLS_PATTERNS)
            fam = 'tls'
        else:
            t = ('iarr', None, None, 4, None)
            pat = rng.choice(ARR_PATTERNS)
            fam = 'arr'
        if fam in ('ext', 'int') and rng.random() < 0.15:
            a = rng.choice([16, 32, 64])
            al = '_Alignas(%d) ' % a
        items = []
        n = rng.randrange(2, 6)
        for it in pat.split(','):
            if fam == 'arr':
                txt = {'A': 'int %s[];', 'An': 'int %s[%d];' % ('%s', n), 'EA': 'extern int %s[];', 'AnI': 'int %s[%d] = {7, 8};' % ('%s', n),
                       'AI': 'int %s[] = {1, 2, 3};'}[it] % name
            else:
                d = t[1] % name
                txt = {'E': 'extern %s;', 'T': al + '%s;', 'I': al + '%s = ' + t[4] + ';', 'S': 'static ' + al + '%s;', 'SI': 'static ' + al + '%s = ' + t[4] + ';',
                       'L': '_Thread_local %s;', 'LI': '_Thread_local %s = ' + t[4] + ';', 'EL': 'extern _Thread_local %s;', 'SL': 'static _Thread_local %s;',
                       'SLI': 'static _Thread_local %s = ' + t[4] + ';'}[it] % d
            items.append(txt)
        info[name] = {'pattern': '%s:%s%s' % (fam, pat, ':aligned' if al else ''), 'type': t[0], 'fam': fam, 'align': max(t[3], int(al[9:11]) if al else 0),
                      'defined': any(x not in ('E', 'EL', 'EA') for x in pat.split(','))}
        vnames.append(name)
        decls.append((name, items))
    # functions
    fkind = {}
    for i in range(nf):
        fkind['f%d' % i] = rng.choice(FN_KINDS)
    fnames = list(fkind)
    refs = {}           # function -> list of (kind, target) where kind in call/addr/slinit
    bodies = {}
    for f in fnames:
        if fkind[f] == 'undef':
            continue
        st = []
        rf = []
        for _ in range(rng.randrange(0, 4)):
            r = rng.random()
            if r < 0.35:
                g = rng.choice(fnames)
                st.append('r += %s();' % g)
                rf.append(('call', g))
            elif r < 0.5:
                g = rng.choice(fnames)
                st.append('{ int (*p)(void) = %s; r += p != 0; }' % rng.choice(['%s', '&%s']) % g)
                rf.append(('addr', g))
            elif r < 0.6:
                g = rng.choice(fnames)
                st.append('{ static int (*sp)(void) = %s; r += sp != 0; }' % g)
                rf.append(('slinit', g))
            elif r < 0.8:
                v = rng.choice(vnames)
                st.append('r += sizeof(%s) + (long)&%s;' % (v, v) if info[v]['type'] != 'iarr' else 'r += (long)&%s;' % v)
                rf.append(('var', v))
            elif r < 0.9:
                st.append('{ static int cnt; static long tab[3] = {1, 2, 3}; r += cnt++ + tab[1]; }')
            else:
                st.append('r += "lit%d"[1];' % rng.randrange(3))
        refs[f] = rf
        bodies[f] = '{ long r = 0; %s return r; }' % ' '.join(st)
    fdecl = {}
    for f in fnames:
        k = fkind[f]
        proto = 'int %s(void)' % f
        if k == 'undef':
            items = ['extern %s;' % proto] * rng.randrange(1, 3)
        elif k == 'ext':
            items = rng.choice([[], ['%s;' % proto], ['extern %s;' % proto], ['%s;' % proto, 'extern %s;' % proto]]) + ['%s %s' % (proto, bodies[f])]
            if rng.random() < 0.2:
                items.append('%s;' % proto)
        elif k == 'static':
            items = rng.choice([[], ['static %s;' % proto], ['static %s;' % proto, 'extern %s;' % proto], ['static %s;' % proto, '%s;' % proto]]) + ['static %s %s' % (proto, bodies[f])]
        elif k == 'si':
            items = rng.choice([[], ['static inline %s;' % proto], []]) + [rng.choice(['static inline %s %s', 'inline static %s %s']) % (proto, bodies[f])]
        elif k == 'ei':
            items = rng.choice([[], ['extern inline %s;' % proto]]) + ['extern inline %s %s' % (proto, bodies[f])]
        elif k == 'pi_ext':
            items = ['inline %s %s' % (proto, bodies[f]), rng.choice(['extern %s;', 'extern inline %s;', '%s;']) % proto]
        elif k == 'ext_pi':
            items = [rng.choice(['extern %s;', 'extern inline %s;', '%s;']) % proto, 'inline %s %s' % (proto, bodies[f])]
        elif k == 'sdecl_si':
            items = ['static %s;' % proto, 'static inline %s %s' % (proto, bodies[f])]
        fdecl[f] = items
        info[f] = {'pattern': 'fn:' + k, 'fam': 'fn', 'kind': k}
    # file-scope initialisers referencing functions / variables
    roots = []
    extra = []
    for i in range(rng.randrange(0, 4)):
        r = rng.random()
        if r < 0.5:
            g = rng.choice(fnames)
            extra.append('%sint (*gp%d)(void) = %s;' % (rng.choice(['', 'static ']), i, g))
            roots.append(g)
        elif r < 0.7:
            g = rng.choice(fnames)
            extra.append('struct { int n; int (*fn)(void); } gs%d = {%d, %s};' % (i, i, g))
            roots.append(g)
        else:
            v = rng.choice([x for x in vnames if info[x]['fam'] != 'tls'] or [None])
            if v:
                extra.append('void *ga%d = (char *)&%s + %d;' % (i, v, rng.randrange(0, 3)))
                info[v]['addr_taken'] = True
    # liveness model for static inline functions
    always = [f for f in fnames if fkind[f] in ('ext', 'static', 'ei', 'pi_ext', 'ext_pi')]
    live = set(always) | set(roots)
    work = list(live)
    while work:
        f = work.pop()
        for (k, g) in refs.get(f, []):
            if k in ('call', 'addr', 'slinit') and g not in live:
                live.add(g)
                work.append(g)
    feats = {}
    for f in fnames:
        if fkind[f] == 'si':
            info[f]['model_emitted'] = f in live
            ft = []
            if f in roots:
                ft.append('file-scope-init')
            callers = [(h, k) for h in fnames for (k, g) in refs.get(h, []) if g == f and k != 'var']
            if any(h == f for h, k in callers):
                ft.append('self-ref')
            if any(k == 'slinit' for h, k in callers):
                ft.append('static-local-init' + ('-in-dead-fn' if not any(h in live for h, k in callers if k == 'slinit') else ''))
            if any(k == 'addr' for h, k in callers):
                ft.append('addr-taken')
            if any(fkind[h] == 'si' and h != f for h, k in callers):
                ft.append('via-inline')
            info[f]['graph'] = '+'.join(ft) or ('unreferenced' if not callers else 'called')
    # layout: first declaration of every variable, a forward declaration of every function with the linkage of its first
    # item, then all remaining items interleaved at random (relative order per identifier kept), then the initialisers
    head = [items[0] for (_, items) in decls]
    fwd = []
    for f in fnames:
        k = fkind[f]
        fwd.append({'static': 'static int %s(void);', 'sdecl_si': 'static int %s(void);', 'si': 'static inline int %s(void);', 'ei': 'extern inline int %s(void);',
                    'pi_ext': 'inline int %s(void);', 'undef': 'extern int %s(void);', 'ext': 'int %s(void);'}.get(k, '%s') % f if k != 'ext_pi' else fdecl[f][0])
    pools = [list(items[1:]) for (_, items) in decls] + [list(fdecl[f][1:] if fkind[f] == 'ext_pi' else fdecl[f]) for f in fnames]
    rest = []
    while any(pools):
        p = rng.choice([p for p in pools if p])
        rest.append(p.pop(0))
    # some file-scope initializers stand between the forward declaration and the definition of the function they mention
    rng.shuffle(extra)
    ne = rng.randrange(0, len(extra) + 1)
    src = STRUCT + '\n'.join(head + fwd + extra[:ne] + rest + extra[ne:]) + '\n'
    return src, info


IGNORED = re.compile(r'^(\.L.*|.*\..*|_GLOBAL_OFFSET_TABLE_|__tls_get_addr|memcpy|memset|__stack_chk_fail|)$')


def symtab(obj):
    """name -> (bind, class, type, size, value)"""
    rc, o, e = core.sh(['readelf', '-SW', obj], text=True)
    secs = {}
    for m in re.finditer(r'^\s*\[\s*(\d+)\]\s+(\S+)', o, re.M):
        secs[m.group(1)] = m.group(2)
    rc, o, e = core.sh(['readelf', '-sW', obj], text=True)
    tab = {}
    for ln in o.split('\n'):
        p = ln.split()
        if len(p) < 8 or not p[0].rstrip(':').isdigit():
            continue
        val, size, typ, bind, ndx, name = p[1], p[2], p[3], p[4], p[6], p[7]
        if typ in ('SECTION', 'FILE') or IGNORED.match(name):
            continue
        if ndx == 'UND':
            cls = 'undef'
        elif ndx == 'COM':
            cls = 'common'
        else:
            sn = secs.get(ndx, '?')
            cls = 'text' if sn.startswith('.text') else 'tls' if sn.startswith(('.tdata', '.tbss')) else 'object' if sn.startswith(('.data', '.bss', '.rodata')) else sn
        size = int(size, 0)
        tab[name] = (bind, cls, typ if cls != 'undef' else '-', size if cls in ('object', 'tls', 'common') else 0, int(val, 16))
    return tab


def run_unit(a):
    (idx, cc, work, src, cfg) = a
    p = os.path.join(work, 'u%d.c' % idx)
    open(p, 'w').write(src)
    flags = FLAGS[cfg]
    res = {}
    for kind, cmd in (('chibicc', [cc, '-c'] + flags), ('gcc', ['gcc', '-std=gnu11', '-O0', '-w', '-c', '-fno-stack-protector'] + flags),
                      ('clang', ['clang', '-std=gnu11', '-O0', '-w', '-c', '-fno-stack-protector'] + flags)):
        o = os.path.join(work, 'u%d.%s.o' % (idx, kind))
        rc, out, err = core.sh(cmd + ['-o', o, p], timeout=60)
        if rc != 0:
            res[kind] = ('fail', (out + err).decode('utf-8', 'replace')[-400:])
        else:
            res[kind] = ('ok', symtab(o))
            os.unlink(o)
    os.unlink(p)
    return idx, res


# ---------------------------------------------------------------- (B) link sets
GTYPES = [('int', 'int %s', '%d', 4, 'int'), ('long', 'long %s', '%ld', 8, 'long'), ('double', 'double %s', '%g', 8, 'double'), ('short', 'short %s', '%d', 2, 'int'),
          ('char', 'char %s', '%d', 1, 'int'), ('ldouble', 'long double %s', '%Lg', 16, 'long double')]


def gen_link_case(rng, idx):
    nu = rng.randrange(2, 5)           # units u0..; main is separate
    common_mode = rng.random() < 0.3   # several units carry a tentative definition of the same object (needs -fcommon)
    hdr = ['#include <stdio.h>', '#include <stdint.h>', STRUCT]
    units = [[] for _ in range(nu)]
    main = []
    gl = []
    ng = rng.randrange(3, 8)
    for i in range(ng):
        t = rng.choice(GTYPES)
        name = 'g%d' % i
        arr = rng.random() < 0.3
        n = rng.choice([2, 4, 5, 16]) if arr else 0
        al = rng.choice([0, 0, 0, 16, 32])
        definer = rng.randrange(nu)
        defkind = rng.choice(['init', 'tentative', 'tentative'])
        d = (t[1] % name) + ('[%d]' % n if arr else '')
        hdr.append('extern %s;' % d)
        pre = '_Alignas(%d) ' % al if al else ''
        for k in range(nu):
            if k == definer:
                if defkind == 'init':
                    units[k].append('%s%s = %s;' % (pre, d, '{%s}' % ', '.join(str(j + 1) for j in range(min(n, 3))) if arr else str(rng.randrange(1, 100))))
                else:
                    units[k].append('%s%s;' % (pre, d))
                    if rng.random() < 0.3:
                        units[k].append('%s%s;' % (pre, d))
            elif common_mode and rng.random() < 0.5:
                units[k].append('%s%s;' % (pre, d))
        gl.append((name, t, n, max(al, t[3] if not arr or n * t[3] < 16 else 16)))
    # thread-local objects: one global defined in a unit, statics in every unit
    tdef = rng.randrange(nu)
    hdr.append('extern _Thread_local int gtls;')
    hdr.append('extern _Thread_local long gtls_arr[3];')
    units[tdef].append(rng.choice(['_Thread_local int gtls = 5;', '_Thread_local int gtls;']))
    units[(tdef + 1) % nu].append('_Thread_local long gtls_arr[3] = {1, 2, 3};')
    # header inline functions with static locals (one instance per unit), transitive use
    hdr.append('static inline int hcount(int x) { static int calls; calls++; return x * 3 + calls; }')
    hdr.append('static inline int hcount2(int x) { return hcount(x) + 1; }')
    hdr.append('static inline int hunused(int x) { return hcount2(x) + undefined_function_never_linked(x); }')
    hdr.insert(3, 'int undefined_function_never_linked(int);')
    hdr.append('inline int pin(int x) { return x + 7; }')
    for k in range(nu):
        hdr.append('int u%d_step(int);' % k)
        hdr.append('void *u%d_addr(int);' % k)
        hdr.append('int (*u%d_fp(void))(int);' % k)
        hdr.append('const char *u%d_str(void);' % k)
        hdr.append('int u%d_tls(int);' % k)
    pin_owner = rng.randrange(nu)
    for k in range(nu):
        u = units[k]
        u.insert(0, '#include "h.h"')
        if k == pin_owner:
            u.append('extern inline int pin(int x);')
        u.append('static int sv = %d;' % (k + 1))
        u.append('static int sarr[5];')
        u.append('static _Thread_local int stls = %d;' % (10 * (k + 1)))
        u.append('static int helper(int x) { static int n; n += %d; return x + n + sv; }' % (k + 2))
        st = []
        for _ in range(rng.randrange(3, 9)):
            (name, t, n, al) = rng.choice(gl)
            lv = '%s[%d]' % (name, rng.randrange(n)) if n else name
            st.append(rng.choice(['%s += x + %d;', '%s = %s * 2 + 1;' % ('%s', lv) + '/*%d*/', '%s -= %d;', '%s++; x += %d;']) % (lv, rng.randrange(1, 9)))
        st.append('sv += x; sarr[x & 3] += sv; x += helper(x) + hcount2(x) + pin(x);')
        if k + 1 < nu and rng.random() < 0.7:
            st.append('x += u%d_step(x & 7);' % (k + 1))
        u.append('int u%d_step(int x) { %s return x + sarr[1] + sarr[2]; }' % (k, ' '.join(st)))
        u.append('void *u%d_addr(int w) { switch (w) { %s case 100: return &gtls; case 101: return u0_step; case 102: return &sv; case 103: return sarr; } return 0; }' %
                 (k, ' '.join('case %d: return %s%s;' % (i, '' if g[2] else '&', g[0]) for i, g in enumerate(gl))))
        u.append('int (*u%d_fp(void))(int) { return %s; }' % (k, rng.choice(['u0_step', '&u0_step', 'u%d_step' % (nu - 1)])))
        u.append('const char *u%d_str(void) { %s }' % (k, rng.choice(['return "unit %d";' % k, 'static const char *s = "unit %d"; return s;' % k, 'static char b[] = "unit %d"; return b;' % k])))
        u.append('int u%d_tls(int d) { static _Thread_local int ltls = %d; static _Alignas(64) char lal[3]; static _Thread_local _Alignas(32) long ltl2; '
                 'gtls += d; stls += d * 2; gtls_arr[1] += d; ltls += d; ltl2 += 1; '
                 'return gtls * 1000 + stls + (int)gtls_arr[1] * 100000 + ltls * 7 + (int)((uintptr_t)lal %% 64) * 3 + (int)((uintptr_t)&ltl2 %% 32) * 5 + (int)ltl2 * 1000000; }' % (k, 3 * (k + 1)))
    # main
    m = ['#include "h.h"', '#include <pthread.h>', 'static _Thread_local int mtls = 77;', '_Thread_local int mtls2;', 'int mcommon;', 'static int mcommon_s;',
         'static void *thr(void *a) { %s mtls++; mtls2 += 3; printf("thread mtls %%d %%d\\n", mtls, mtls2); return 0; }' %
         ' '.join('printf("thread: u%d %%d\\n", u%d_tls(%d));' % (k, k, k + 1) for k in range(nu))]
    body = []
    for rnd in range(3):
        for k in range(nu):
            body.append('printf("step u%d %%d\\n", u%d_step(%d));' % (k, k, rnd + k))
        for (name, t, n, al) in gl:
            if n:
                body.append('printf("%s = %s %s\\n", (%s)%s[0], (%s)%s[%d]);' % (name, t[2], t[2], t[4], name, t[4], name, n - 1))
            else:
                body.append('printf("%s = %s\\n", (%s)%s);' % (name, t[2], t[4], name))
    for i, (name, t, n, al) in enumerate(gl):
        eq = ' && '.join('u%d_addr(%d) == (void *)%s%s' % (k, i, '' if n else '&', name) for k in range(nu))
        body.append('printf("identity %s %%d aligned %%d\\n", %s, (int)((uintptr_t)u0_addr(%d) %% %d));' % (name, eq, i, al))
    body.append('printf("fn identity %%d\\n", %s);' % ' && '.join('u%d_addr(101) == (void *)u0_step' % k for k in range(nu)))
    for k in range(nu):
        body.append('printf("fp u%d %%d\\n", u%d_fp()(1));' % (k, k))
    body.append('printf("statics distinct %%d\\n", %s);' % ' && '.join('u%d_addr(102) != u%d_addr(102) && u%d_addr(103) != u%d_addr(103)' % (k, (k + 1) % nu, k, (k + 1) % nu) for k in range(nu)))
    body.append('printf("str %s\\n", %s);' % (' '.join('%s' for _ in range(nu)), ', '.join('u%d_str()' % k for k in range(nu))))
    for k in range(nu):
        body.append('printf("tls main: u%d %%d\\n", u%d_tls(%d));' % (k, k, k + 2))
    body.append('pthread_t th; pthread_create(&th, 0, thr, 0); pthread_join(th, 0);')
    for k in range(nu):
        body.append('printf("tls main again: u%d %%d\\n", u%d_tls(0));' % (k, k))
    body.append('mtls += 2; mcommon += 5; mcommon_s += 6; printf("main own %d %d %d %d pin %d\\n", mtls, mtls2, mcommon, mcommon_s, pin(1));')
    m.append('int main(void) { %s return 0; }' % '\n  '.join(body))
    files = {'h.h': '\n'.join(hdr) + '\n', 'main.c': '\n'.join(m) + '\n'}
    for k in range(nu):
        files['u%d.c' % k] = '\n'.join(units[k]) + '\n'
    return files, nu, common_mode


def run_link(a):
    (idx, cc, work, files, nu, common_mode, configs) = a
    d = os.path.join(work, 'l%d' % idx)
    os.makedirs(d)
    for n, t in files.items():
        open(os.path.join(d, n), 'w').write(t)
    srcs = ['u%d.c' % k for k in range(nu)]
    res = {}

    def build(tag, compilers, cflags, link_cmd, shared=None, main_flags=None, ld_env=None):
        objs = []
        for i, s in enumerate(srcs + ['main.c']):
            comp = compilers[i % len(compilers)]
            o = '%s.%s.o' % (s[:-2], tag)
            fl = list(cflags if (s != 'main.c' or main_flags is None) else main_flags)
            if comp == 'chibicc':
                cmd = [cc, '-c'] + fl
            else:
                cmd = [comp, '-std=gnu11', '-O0', '-w', '-c'] + fl
            rc, out, err = core.sh(cmd + ['-o', o, s], cwd=d, timeout=60)
            if rc != 0:
                return ('compile-fail', (out + err).decode('utf-8', 'replace')[-300:])
            objs.append(o)
        exe = 'exe.' + tag
        if shared:
            lib = 'libu%s.so' % tag
            rc, out, err = core.sh(shared + ['-o', lib] + objs[:-1], cwd=d, timeout=60)
            if rc != 0:
                return ('link-fail', (out + err).decode('utf-8', 'replace')[-300:])
            rc, out, err = core.sh(link_cmd + ['-o', exe, objs[-1], '-L.', '-lu' + tag], cwd=d, timeout=60)
        else:
            rc, out, err = core.sh(link_cmd + ['-o', exe] + objs, cwd=d, timeout=60)
        if rc != 0:
            return ('link-fail', (out + err).decode('utf-8', 'replace')[-300:])
        warn = 'zero size' in err.decode('utf-8', 'replace')
        rc, out, err = core.sh(['./' + exe], cwd=d, timeout=20, env={'LD_LIBRARY_PATH': d})
        return ('run', rc, out, warn)

    fc = ['-fcommon'] if common_mode else []
    res['gcc'] = build('gcc', ['gcc'], fc, ['gcc'])
    res['clang'] = build('clang', ['clang'], fc, ['clang'])
    for cfg in configs:
        if cfg == 'default':
            res[cfg] = build('d', ['chibicc'], [], [cc])
        elif cfg == 'fno-common':
            if common_mode:
                continue
            res[cfg] = build('n', ['chibicc'], ['-fno-common'], [cc])
        elif cfg == 'fPIC':
            res[cfg] = build('p', ['chibicc'], ['-fPIC'] + fc, [cc])
        elif cfg == 'shared':
            res[cfg] = build('s', ['chibicc'], ['-fPIC'] + fc, [cc], shared=[cc, '-shared'])
        elif cfg == 'shared-nonpic-main':
            res[cfg] = build('m', ['chibicc'], ['-fPIC'] + fc, [cc], shared=[cc, '-shared'], main_flags=fc)
        elif cfg == 'static':
            res[cfg] = build('t', ['chibicc'], fc, [cc, '-static'])
        elif cfg == 'mixed':
            res[cfg] = build('x', ['chibicc', 'gcc'] if idx % 2 else ['gcc', 'chibicc'], ['-fcommon'] if common_mode else ['-fno-common'], ['gcc', '-no-pie'])
        elif cfg == 'mixed-pic':
            res[cfg] = build('y', ['gcc', 'chibicc'] if idx % 2 else ['chibicc', 'gcc'], ['-fPIC'] + fc, ['gcc'])
    shutil.rmtree(d, ignore_errors=True)
    return idx, res


CONFIGS = ['default', 'fno-common', 'fPIC', 'shared', 'shared-nonpic-main', 'static', 'mixed', 'mixed-pic']


def run(ctx):
    cc = ctx.build('plain')
    work = ctx.tmpdir('c15')
    rng = ctx.rng
    ctx.rule = ('unit case = generated translation unit x {-fcommon, -fno-common} x {non-PIC, PIC}: every named symbol of the chibicc object must equal the gcc or the clang entry '
                '(binding, class, type, size), common alignment >= required, static inline functions must obey the reachability model; link case = 2-4 units + main built '
                'in 8 configurations: must link and print what gcc == clang print; distinct = declaration-sequence patterns x configurations + link configurations')
    ctx.assumptions += ['symbol names with a dot or .L prefix (static locals, literals) are not compared by name; their behaviour is observed by the link cases',
                        'function symbol sizes are not compared (different code)', 'cases on which gcc and clang builds disagree are discarded',
                        'plain `inline` without extern is compared only through behaviour (C11 leaves the choice of definition unspecified)']
    # ---- (A)
    nunits = ctx.scale(900, 20000)
    cases = []
    for i in range(nunits):
        src, info = gen_unit(rng, i)
        cases.append((src, info, ['fcommon', 'fno-common', 'fcommon-pic', 'fno-common-pic', 'fcommon-last', 'fno-common-last'][i % 6]))
    for idx, res in core.pmap(run_unit, [(i, cc, work, c[0], c[2]) for i, c in enumerate(cases)], chunksize=8):
        src, info, cfg = cases[idx]
        ctx.evaluations += 1
        if res['gcc'][0] != 'ok' or res['clang'][0] != 'ok':
            ctx.count('units_discarded_reference_rejects')
            if ctx.counts.get('units_discarded_reference_rejects', 0) <= 3:
                ctx.sample({'reference_rejects': (res['gcc'][1] if res['gcc'][0] != 'ok' else res['clang'][1])[:300]})
            continue
        files = {'unit.c': src}
        script = ('$CHIBICC -c %s -o x.o unit.c || exit 1; gcc -std=gnu11 -O0 -w -c -fno-stack-protector %s -o g.o unit.c; readelf -sW x.o > x.txt; readelf -sW g.o > g.txt; '
                  'echo "compare x.txt with g.txt for the symbol named in replay.json"; exit 1') % (' '.join(FLAGS[cfg]), ' '.join(FLAGS[cfg]))
        if res['chibicc'][0] != 'ok':
            et = res['chibicc'][1]
            m = re.search(r'(\^ [^\n]*|undefined|multiple definition|already defined|redefinition|[Ee]rror:[^\n]*)', et)
            ctx.violation('C15|unit|rejected|%s' % core.norm_ws(re.sub(r"[`']\w+'", "'X'", m.group(0) if m else core.first_line(et)))[:100],
                          'chibicc -c fails on a unit gcc and clang accept (%s): %s' % (cfg, core.first_line(et)), files=files, script='$CHIBICC -c %s -o x.o unit.c && exit 0; exit 1' % ' '.join(FLAGS[cfg]))
            continue
        ctx.count('units_compared')
        x, g, c = res['chibicc'][1], res['gcc'][1], res['clang'][1]
        for name in sorted(set(x) | set(g) | set(c)):
            if name not in info:
                continue
            ctx.count('symbols_compared')
            pat = info[name]['pattern']
            ctx.saw('sym:%s|%s' % (pat, cfg.replace('-pic', '').replace('-last', '')))
            ex, eg, ec = x.get(name), g.get(name), c.get(name)
            if eg != ec and (eg is None or ec is None or eg[:4] != ec[:4]):
                ctx.count('symbols_reference_ambiguous')
            same = lambda a, b: (a is None and b is None) or (a is not None and b is not None and a[:4] == b[:4])
            if info[name].get('kind') == 'si' and 'model_emitted' in info[name]:
                me = info[name]['model_emitted']
                if me and ex is None:
                    ctx.violation('C15|inline|%s|missing' % info[name]['graph'], 'static inline %s is referenced (%s) but not emitted (%s)' % (name, info[name]['graph'], cfg), files=files, script=script)
                    continue
                if not me and ex is not None and eg is None and ec is None:
                    ctx.violation('C15|inline|%s|spurious' % info[name]['graph'], 'static inline %s is unreachable (%s) but emitted (%s)' % (name, info[name]['graph'], cfg), files=files, script=script)
                    continue
                if ex is not None and ex[:3] != ('LOCAL', 'text', 'FUNC'):
                    ctx.violation('C15|inline|%s|entry' % info[name]['graph'], 'static inline %s has symbol entry %s' % (name, ex[:3]), files=files, script=script)
                continue
            if same(ex, eg) or same(ex, ec):
                if ex is not None and ex[1] == 'common' and ex[4] < info[name].get('align', 1):
                    ctx.violation('C15|sym|%s|common-align' % pat, '%s (%s): common symbol alignment %d < required %d' % (name, pat, ex[4], info[name]['align']), files=files, script=script)
                continue
            if ex is None:
                field = 'missing'
            elif eg is None and ec is None:
                field = 'spurious'
            else:
                r = eg if eg is not None else ec
                field = 'binding' if ex[0] != r[0] else 'class' if ex[1] != r[1] else 'type' if ex[2] != r[2] else 'size'
            ctx.violation('C15|sym|%s|%s|%s' % (pat, cfg.replace('-pic', ''), field), '%s declared as %s with %s: chibicc %s, gcc %s, clang %s' % (name, pat, cfg, ex and ex[:4], eg and eg[:4], ec and ec[:4]),
                          files=files, script=script)
    # ---- (B)
    nl = ctx.scale(90, 2500)
    lcases = [gen_link_case(rng, i) for i in range(nl)]
    for idx, res in core.pmap(run_link, [(i, cc, work, c[0], c[1], c[2], CONFIGS) for i, c in enumerate(lcases)], chunksize=1):
        files, nu, common_mode = lcases[idx]
        ctx.evaluations += 1
        g, c = res['gcc'], res['clang']
        if g[0] != 'run' or c[0] != 'run' or g[1:3] != c[1:3] or g[1] != 0:
            ctx.count('link_cases_discarded_references_disagree')
            if ctx.counts.get('link_cases_discarded_references_disagree', 0) <= 2:
                ctx.sample({'reference_disagree': [str(g)[:300], str(c)[:300]]})
            continue
        for cfg in CONFIGS:
            if cfg not in res:
                continue
            r = res[cfg]
            ctx.count('link_builds')
            ctx.saw('link:%s|%s' % (cfg, 'common-merge' if common_mode else 'one-definition'))
            mode = 'common-merge' if common_mode else 'one-definition'
            script = 'echo "build the %s configuration as in props/C15.py run_link and compare the output with the gcc build"; exit 1' % cfg
            if r[0] != 'run':
                msg = r[1]
                m = re.search(r"(undefined reference to|multiple definition of|relocation \S+ against|can not be used when making|[Ee]rror:)[^\n]*", msg)
                cls = re.sub(r"[`'][\w.]+'", "'X'", m.group(0)).split(';')[0][:80] if m else 'other'
                ctx.violation('C15|config|%s|%s|%s|%s' % (cfg, mode, r[0], cls), '%s build: %s: %s' % (cfg, r[0], msg[-200:].replace('\n', ' / ')), files=files, script=script)
            elif (r[1], r[2]) != (g[1], g[2]):
                dl = core.first_diff(r[2], g[2]) if isinstance(r[2], bytes) else None
                what = re.sub(r'-?\d+(\.\d+)?', 'N', dl[2]).strip()[:40] if dl else 'exit status'
                ctx.violation('C15|config|%s|%s|output|%s' % (cfg, mode, what), '%s build: rc=%s, first differing line %s (expected %s)' % (cfg, r[1], dl and dl[1], dl and dl[2]), files=files, script=script)
            elif r[3]:
                ctx.violation('C15|config|%s|%s|ld-warning|zero-size-dynamic-variable' % (cfg, mode), '%s build: ld warns about a zero-size dynamic variable (copy relocation of an unsized object)' % cfg,
                              files=files, script=script)
    ctx.sample({'unit': cases[0][0][:1500]})
    ctx.sample({'link_case_main': lcases[0][0]['main.c'][:1200]})
    ctx.extra['configurations'] = CONFIGS
    ctx.extra['declaration_patterns'] = {'external': EXT_PATTERNS, 'internal': INT_PATTERNS, 'tls': TLS_PATTERNS, 'incomplete-array': ARR_PATTERNS, 'function': sorted(set(FN_KINDS))}


FLAGS = {'fcommon': ['-fcommon'], 'fno-common': ['-fno-common'], 'fcommon-pic': ['-fcommon', '-fPIC'], 'fno-common-pic': ['-fno-common', '-fPIC'],
         'fcommon-last': ['-fno-common', '-fcommon'], 'fno-common-last': ['-fcommon', '-fPIC', '-fno-common']}      # the last of contradicting options wins
