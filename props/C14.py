"""C14 - driver process discipline under failure and concurrency (level: fault_enumeration).

Workload: every command shape {-E,-S,-c,link} x {-o, default name} x 1..3 inputs of kinds {.c,.s,.o} (illegal shapes must
be refused) x every single failure point of the resulting pipeline (k-th cc1 / k-th as / ld; exit 1, exit 2, SIGSEGV,
SIGKILL, injected by an LD_PRELOAD constructor keyed on a shared counter) x {output absent, output pre-existing with a
sentinel}; natural failures (syntax error / missing / directory input, output in a missing directory or below a regular
file); concurrent drivers in one directory; fork failing (strace inject, thorough).
Monitor: offline checker over the process-tree event log + directory snapshots."""
import os, itertools, shutil, random, hashlib
from lib import core

LEVEL = 'fault_enumeration'
MIN_COUNTS = {'fault_fired': (800, 2000), 'success_runs': (100, 100), 'natural_failures': (100, 200), 'concurrent_drivers': (20, 200)}

SENT = b'SENTINEL-do-not-touch\n'
PRELOAD = os.path.join(core.VERIF, 'build', 'preload.so')


def c_src(i, main=False, bad=False, pp=False):
    s = 'int g%d = %d;\nint f%d(int x) { return x + %d; }\n' % (i, i, i, i)
    if main:
        s += 'int main(void) { return 0; }\n'
    if bad == 'codegen':
        # an error that is only detected while code is being generated, after the whole unit has been parsed
        s += 'void late%d(void) { 1 = g%d; }\n' % (i, i)
    elif bad:
        s += '#error stop here\n' if pp else 'int broken( { return }\n'
    return s


def shapes():
    res = []
    for mode in ('E', 'S', 'c', 'link'):
        kinds = {'E': 'c', 'S': 'cs', 'c': 'cs', 'link': 'cso'}[mode]
        for n in (1, 2, 3):
            for combo in itertools.product(kinds, repeat=n):
                for with_o in (False, True):
                    res.append((mode, combo, with_o))
    # -S and -c together: compilation stops after the compiler proper (as with gcc), in either order
    for mode in ('Sc', 'cS'):
        for n in (1, 2):
            for combo in itertools.product('cs', repeat=n):
                for with_o in (False, True):
                    res.append((mode, combo, with_o))
    return res


def base_mode(mode):
    return 'S' if mode in ('Sc', 'cS') else mode


def base_name(i):
    # every other input has a dot inside its base name: default output names replace only the last extension
    return 'in%d' % i if i % 2 else 'in%d.part.v2' % i


def plan(mode, combo, with_o):
    """-> (legal, steps, outputs_per_input, final_output)  steps: list of (role, input index)"""
    n = len(combo)
    mode = base_mode(mode)
    legal = not (with_o and n > 1 and mode in ('E', 'S', 'c'))
    steps = []
    outs = []
    for i, k in enumerate(combo):
        base = base_name(i)
        o = None
        if k == 'c':
            steps.append(('cc1', i))
            if mode in ('c', 'link'):
                steps.append(('as', i))
            if mode == 'S':
                o = 'out.s' if with_o else base + '.s'
            elif mode == 'c':
                o = 'out.o' if with_o else base + '.o'
            elif mode == 'E' and with_o:
                o = 'out.i'
        elif k == 's':
            if mode in ('c', 'link'):
                steps.append(('as', i))
            if mode == 'c':
                o = 'out.o' if with_o else base + '.o'
        outs.append(o)
    final = None
    if mode == 'link':
        steps.append(('ld', -1))
        final = 'out.exe' if with_o else 'a.out'
    return legal, steps, outs, final


def run_scenario(a):
    """Executes one scenario in a fresh directory; returns a dict of observations."""
    (sid, cc, work, mode, combo, with_o, fault, natural, sentinel) = a
    d = os.path.join(work, 'sc%d' % sid)
    os.makedirs(os.path.join(d, 'cnt'))
    legal, steps, outs, final = plan(mode, combo, with_o)
    full_mode, mode = mode, base_mode(mode)
    names = []
    main_at = 0
    for i, k in enumerate(combo):
        nm = '%s.%s' % (base_name(i), k)
        names.append(nm)
        src = c_src(i, main=(mode == 'link' and i == main_at), bad=('codegen' if natural == ('codegen', i) else natural == ('syntax', i)), pp=(mode == 'E'))
        p = os.path.join(d, nm)
        if natural == ('missing', i):
            continue
        if natural == ('directory', i):
            os.makedirs(p)
            continue
        if k == 'c':
            open(p, 'w').write(src)
        else:
            tmpc = os.path.join(d, 'gen%d.c' % i)
            open(tmpc, 'w').write(src)
            rc, o, e = core.sh([cc, '-S' if k == 's' else '-c', '-o', p, tmpc], cwd=d)
            os.unlink(tmpc)
            if rc != 0:
                return {'sid': sid, 'harness_error': 'cannot prepare input: ' + e.decode()[-200:]}
    args = {'E': ['-E'], 'S': ['-S'], 'c': ['-c'], 'link': [], 'Sc': ['-S', '-c'], 'cS': ['-c', '-S']}[full_mode]
    if natural and natural[0] == 'include-missing':
        args += ['-include', 'no_such_header.h']
    oname = None
    if with_o:
        oname = {'E': 'out.i', 'S': 'out.s', 'c': 'out.o', 'link': 'out.exe'}[mode]
        if natural == ('odir-missing',):
            oname = 'nodir/' + oname
        elif natural == ('o-under-file',):
            open(os.path.join(d, 'plainfile'), 'w').write('x')
            oname = 'plainfile/' + oname
        args += ['-o', oname]
    args += names
    # pre-existing outputs with sentinel
    watched = [o for o in outs if o] + ([final] if final else [])
    watched = sorted(set(watched))
    if sentinel:
        for w in watched:
            open(os.path.join(d, w), 'wb').write(SENT)
    before = set(os.listdir(d))
    env = {'LD_PRELOAD': PRELOAD, 'VERIF_LOG': os.path.join(d, 'log'), 'VERIF_CNT': os.path.join(d, 'cnt')}
    if fault:
        env['VERIF_FAULT'] = '%s:%d:%s' % fault
    rc, so, se = core.sh([cc] + args, cwd=d, env=env, timeout=120)
    after = set(os.listdir(d))
    log = []
    try:
        for ln in open(os.path.join(d, 'log'), errors='replace'):
            f = ln.rstrip('\n').split('\t')
            if len(f) >= 4:
                log.append(f)
    except OSError:
        pass
    mk = [f[3] for f in log if f[2] == 'mkstemp']
    driver_pids = {f[0] for f in log if f[1] == 'driver' and f[2] == 'start'}
    unl = [f[3] for f in log if f[2] == 'unlink' and f[1] == 'driver']
    left = [p for p in mk if os.path.exists(p)]
    for p in left:
        try:
            os.unlink(p)
        except OSError:
            pass
    fired = any(f[2] == 'fault' for f in log)
    started = [(f[1]) for f in log if f[2] == 'start']
    content = {}
    fkind = {}
    for w in watched:
        p = os.path.join(d, w)
        content[w] = open(p, 'rb').read() if os.path.isfile(p) else None
        c = content[w]
        if c is None:
            fkind[w] = 'absent'
        elif c == SENT:
            fkind[w] = 'sentinel'
        elif c[:4] == b'\x7fELF' and len(c) > 18:
            fkind[w] = {1: 'elf-rel', 2: 'elf-exec', 3: 'elf-dyn'}.get(c[16] | (c[17] << 8), 'elf-other')
        elif c and b'\0' not in c:
            fkind[w] = 'text'
        else:
            fkind[w] = 'other'
    new = sorted((after - before) - {'log', 'cnt'})
    res = {'sid': sid, 'rc': rc, 'fired': fired, 'left': left, 'new': new, 'content_is_sentinel': {w: (c == SENT) for w, c in content.items()},
           'exists': {w: c is not None for w, c in content.items()}, 'cross_unlink': [u for u in unl if u not in mk],
           'file_kind': fkind, 'stdout_len': len(so), 'stderr': se.decode('utf-8', 'replace')[-300:], 'started': started, 'args': args,
           'nmk': len(mk), 'nprocs': len(started)}
    shutil.rmtree(d, ignore_errors=True)
    return res


def shape_name(mode, combo, with_o):
    return '%s%s(%s)' % (mode, '-o' if with_o else '', ''.join(combo))


def sigchld_cases(ctx, cc, work):
    """The driver started with SIGCHLD ignored (children are reaped by the kernel, wait() fails with ECHILD): it cannot learn
    the exit status of its children, so it must not report success for a command one of whose steps failed."""
    d = os.path.join(work, 'sigchld')
    os.makedirs(d)
    open(os.path.join(d, 'good.c'), 'w').write('int main(void) { return 0; }\n')
    open(os.path.join(d, 'bad.c'), 'w').write('int broken( { return }\n')
    open(os.path.join(d, 'late.c'), 'w').write('void f(void) { 1 = 2; }\n')
    for (tag, args, outs, failing) in [('c-bad', ['-c', 'bad.c'], ['bad.o'], True), ('c-late', ['-c', 'late.c'], ['late.o'], True), ('S-bad', ['-S', 'bad.c'], ['bad.s'], True),
                                       ('link-good-bad', ['-o', 'prog', 'good.c', 'bad.c'], ['prog'], True), ('c-good-bad', ['-c', 'good.c', 'bad.c'], ['bad.o'], True),
                                       ('c-good', ['-c', 'good.c'], ['good.o'], False), ('link-good', ['-o', 'prog2', 'good.c'], ['prog2'], False)]:
        for o in outs:
            if os.path.exists(os.path.join(d, o)):
                os.unlink(os.path.join(d, o))
        rc, so, se = core.sh(['env', '--ignore-signal=CHLD', cc] + args, cwd=d, timeout=120)
        ctx.evaluations += 1
        ctx.count('sigchld_ignored_runs')
        ctx.saw(('sigchld-ignored', tag))
        present = [o for o in outs if os.path.exists(os.path.join(d, o))]
        files = {'scenario.json': __import__('json').dumps({'args': args, 'rc': rc, 'outputs_present': present, 'stderr': se.decode('utf-8', 'replace')[-300:]})}
        script = 'printf "int broken( { return }\\n" > bad.c; env --ignore-signal=CHLD $CHIBICC -c bad.c; rc=$?; [ $rc -ne 0 ] && [ ! -e bad.o ] && exit 0; exit 1'
        if failing and (rc == 0 or present):
            ctx.violation('C14|sigchld-ignored|%s|%s' % (tag, 'exit0' if rc == 0 else 'output-created'), 'with SIGCHLD ignored `chibicc %s` exits %s and leaves %s' % (' '.join(args), rc, present or 'nothing'),
                          files=files, script=script)
        if not failing and rc == 0 and not present:
            ctx.violation('C14|sigchld-ignored|%s|exit0-without-output' % tag, 'exit 0 but %s missing' % outs, files=files, script=script)


def dep_option_cases(ctx, cc, work):
    """Dependency options: -M / -MM stop after preprocessing (no object, no link, nothing but the rule on stdout or in -MF), -MD / -MMD
    are side outputs of an ordinary compile or link. The set of files created must be exactly what the command shape implies."""
    d = os.path.join(work, 'depopts')
    os.makedirs(d)
    open(os.path.join(d, 'a.c'), 'w').write('#include "h.h"\nint main(void) { return f(); }\n')
    open(os.path.join(d, 'b.c'), 'w').write('#include "h.h"\nint f(void) { return 0; }\n')
    open(os.path.join(d, 'h.h'), 'w').write('int f(void);\n')
    core.sh([cc, '-c', '-o', 'whole.o', 'b.c'], cwd=d)
    base = set(os.listdir(d))
    cases = [('M', ['-M', 'a.c'], set()), ('M-two', ['-M', 'a.c', 'b.c'], set()), ('M-with-object', ['-M', 'a.c', 'whole.o'], set()),
             ('M-MF', ['-M', '-MF', 'x.d', 'a.c'], {'x.d'}), ('c-MD', ['-c', '-MD', 'a.c'], {'a.o', 'a.d'}), ('c-MD-MF', ['-c', '-MD', '-MF', 'y.d', 'a.c'], {'a.o', 'y.d'}),
             ('c-MMD', ['-c', '-MMD', 'b.c'], {'b.o', 'b.d'}), ('S-MD-o', ['-S', '-MD', '-o', 'o.s', 'a.c'], {'o.s', 'o.d'}),
             ('link-MD', ['-MD', '-o', 'prog', 'a.c', 'b.c'], {'prog'}), ('link-MD-object', ['-MD', '-o', 'prog2', 'a.c', 'whole.o'], {'prog2'}), ('link-MMD-default', ['-MMD', 'a.c', 'b.c'], {'a.out'}),
             ('E-MD', ['-E', '-MD', '-MF', 'z.d', '-o', 'e.i', 'a.c'], {'e.i', 'z.d'})]
    for (tag, args, must) in cases:
        for f in set(os.listdir(d)) - base:
            os.unlink(os.path.join(d, f))
        rc, so, se = core.sh([cc] + args, cwd=d, timeout=120)
        new = set(os.listdir(d)) - base
        ctx.evaluations += 1
        ctx.count('dependency_option_runs')
        ctx.saw(('dep-option', tag))
        files = {'scenario.json': __import__('json').dumps({'args': args, 'rc': rc, 'new_files': sorted(new), 'required': sorted(must), 'stderr': se.decode('utf-8', 'replace')[-300:]})}
        script = 'echo "run: chibicc %s in a directory with a.c b.c h.h whole.o and compare the files created"; exit 1' % ' '.join(args)
        if rc != 0:
            ctx.violation('C14|dep-option|%s|fails' % tag, '`chibicc %s` exits %s: %s' % (' '.join(args), rc, core.first_line(se.decode('utf-8', 'replace'))), files=files, script=script)
            continue
        missing = must - new
        extra = {f for f in new - must if not f.endswith('.d')}       # where the .d of a link goes is not prescribed; anything else is
        if missing:
            ctx.violation('C14|dep-option|%s|output-missing' % tag, '`chibicc %s` exits 0 without creating %s (created: %s)' % (' '.join(args), sorted(missing), sorted(new)), files=files, script=script)
        if extra:
            ctx.violation('C14|dep-option|%s|extra-file' % tag, '`chibicc %s` also creates %s' % (' '.join(args), sorted(extra)), files=files, script=script)
        if tag.startswith('M') and 'MF' not in tag and b'a.c' not in so and b'b.c' not in so:
            ctx.violation('C14|dep-option|%s|no-rule-on-stdout' % tag, '`chibicc %s` prints no dependency rule' % ' '.join(args), files=files, script=script)


def run(ctx):
    cc = ctx.build('plain')
    work = ctx.tmpdir('c14')
    core.ensure_rt()
    if not os.path.exists(PRELOAD):
        raise core.Inconclusive('preload.so missing')
    ctx.rule = ('scenario = command shape x single failure point (k-th cc1/as/ld x exit1/exit2/SIGSEGV/SIGKILL) x sentinel mode, plus '
                'natural failures, illegal shapes, concurrency; distinct = distinct (shape, failure point, how, sentinel) tuples whose '
                'fault actually fired, counted from the event logs')
    ctx.assumptions += ['faults are injected at process start of the k-th cc1/as/ld (LD_PRELOAD constructor); partial-progress crashes of '
                        'as/ld are not modelled', 'a driver killed from outside is outside the property']
    hows = ['exit1', 'exit2', 'segv', 'kill']
    scen = []
    sid = 0
    meta = {}
    allshapes = shapes()
    for (fmode, combo, with_o) in allshapes:
        legal, steps, outs, final = plan(fmode, combo, with_o)
        sname = shape_name(fmode, combo, with_o)
        mode = base_mode(fmode)
        if not legal:
            for sentinel in (False, True):
                scen.append((sid, cc, work, fmode, combo, with_o, None, None, sentinel)); meta[sid] = (sname, 'illegal', None, sentinel, steps, outs, final); sid += 1
            continue
        # success run
        scen.append((sid, cc, work, fmode, combo, with_o, None, None, False)); meta[sid] = (sname, 'success', None, False, steps, outs, final); sid += 1
        # injected faults: every step
        cnt = {}
        for (role, inp) in steps:
            cnt[role] = cnt.get(role, 0) + 1
            k = cnt[role]
            hs = hows if (ctx.tier == 'thorough' or len(combo) < 3) else [hows[(sid + k) % 4], hows[(sid + k + 1) % 4]]
            for how in hs:
                for sentinel in ((False, True) if (ctx.tier == 'thorough' or how in ('exit1', 'segv')) else (bool((sid + k) % 2),)):
                    scen.append((sid, cc, work, fmode, combo, with_o, (role, k, how), None, sentinel))
                    meta[sid] = (sname, 'fault', (role, k, how, inp), sentinel, steps, outs, final); sid += 1
        # natural failures
        nat = []
        for i, kind in enumerate(combo):
            if kind == 'c':
                nat.append(('syntax', i))
                if mode != 'E':
                    nat.append(('codegen', i))
            if not (kind == 's' and mode == 'S'):   # -S never opens .s inputs: their absence is not a failing step
                nat.append(('missing', i))
            if kind == 'c' and mode != 'E':
                nat.append(('directory', i))
        if 'c' in combo:
            nat.append(('include-missing', combo.index('c')))
        if with_o and any(o for o in outs) or (with_o and final):
            nat += [('odir-missing',), ('o-under-file',)]
        if ctx.quick() and len(combo) == 3:
            nat = nat[::2]
        for nf in nat:
            sentinel = (sid % 2 == 0) and nf[0] not in ('odir-missing', 'o-under-file')
            scen.append((sid, cc, work, fmode, combo, with_o, None, nf, sentinel)); meta[sid] = (sname, 'natural', nf, sentinel, steps, outs, final); sid += 1
    sigchld_cases(ctx, cc, work)
    dep_option_cases(ctx, cc, work)
    results = core.pmap(run_scenario, scen, chunksize=4)
    for r in results:
        sname, kind, info, sentinel, steps, outs, final = meta[r['sid']]
        ctx.evaluations += 1
        if 'harness_error' in r:
            ctx.count('harness_errors')
            continue
        files = {'scenario.json': __import__('json').dumps({'shape': sname, 'kind': kind, 'info': info, 'sentinel': sentinel, 'observed': r}, indent=1, default=str)}

        def viol(what_key, what):
            tag = {'success': 'no-fault', 'illegal': 'illegal-shape'}.get(kind)
            if kind == 'fault':
                tag = '%s#%d:%s' % (info[0], info[1], info[2])
            elif kind == 'natural':
                tag = 'natural:' + ':'.join(str(x) for x in info)
            ctx.violation('C14|%s|%s|%s' % (sname, tag, what_key), what + ' | cmd: chibicc ' + ' '.join(r['args']) + ' | stderr: ' + r['stderr'][-120:], files=files,
                          script='echo "scenario in scenario.json; rerun: ./check C14 --tier quick"; exit 1')
        if r['left']:
            viol('temp-left', 'temporary files survive the driver: %s' % r['left'])
        if r['cross_unlink']:
            viol('cross-unlink', 'driver unlinked files it did not create: %s' % r['cross_unlink'])
        if kind == 'success':
            ctx.count('success_runs')
            ctx.saw((sname, 'success'))
            exp = sorted(set([o for o in outs if o] + ([final] if final else [])))
            if r['rc'] != 0:
                viol('rejects-valid', 'valid command failed with status %s' % r['rc'])
            else:
                if r['new'] != exp:
                    viol('extra-file' if set(r['new']) - set(exp) else 'missing-output', 'after success the directory gained %s, expected exactly %s' % (r['new'], exp))
                if sname.startswith('E(') and r['stdout_len'] == 0:
                    viol('missing-output', '-E wrote nothing to stdout')
                for w, fk in sorted(r['file_kind'].items()):
                    want = {'.s': ('text',), '.i': ('text',), '.o': ('elf-rel',)}.get(os.path.splitext(w)[1], ('elf-exec', 'elf-dyn'))
                    ctx.saw(('output-kind', os.path.splitext(w)[1] or 'executable', fk))
                    if fk not in want and fk != 'absent':
                        viol('wrong-output-kind', '%s is %s, expected %s' % (w, fk, '/'.join(want)))
            continue
        if kind == 'illegal':
            ctx.count('illegal_shapes')
            ctx.saw((sname, 'illegal', sentinel))
            if r['rc'] == 0:
                viol('exit0', 'illegal shape accepted')
            if r['new']:
                viol('extra-file', 'refused command created %s' % r['new'])
            if sentinel and not all(r['content_is_sentinel'].values()):
                viol('output-overwritten', 'refused command overwrote an existing file')
            continue
        # failure scenarios
        if kind == 'fault':
            if not r['fired']:
                ctx.count('fault_not_reached')
                continue
            ctx.count('fault_fired')
            ctx.saw((sname, info[0], info[1], info[2], sentinel))
            failed_input = info[3]
        else:
            ctx.count('natural_failures')
            ctx.saw((sname, 'natural') + tuple(info) + (sentinel,))
            failed_input = info[1] if len(info) > 1 else None
        if r['rc'] == 0:
            viol('exit0', 'a step failed but the driver exited 0')
        # outputs that must be untouched: the failed TU's output, outputs of later TUs, and the link output
        untouched = set()
        if failed_input is not None and failed_input >= 0:
            for j in range(failed_input, len(outs)):
                if outs[j]:
                    untouched.add(outs[j])
        elif failed_input is None:
            untouched |= {o for o in outs if o}
        if final:
            untouched.add(final)
        if kind == 'natural' and info[0] in ('odir-missing', 'o-under-file'):
            untouched = set()
        if kind == 'natural' and info[0] == 'missing' and sname.split('(')[1][info[1]] in 'os':
            # a missing object/assembly file is only noticed by ld/as itself, after every translation unit succeeded;
            # what ld does to its own output on failure is not the driver's doing
            untouched = set() if sname.split('(')[1][info[1]] == 'o' else untouched - {outs[info[1]]}
        for w in sorted(untouched):
            if sentinel:
                if not r['content_is_sentinel'].get(w, True):
                    viol('output-overwritten', 'existing %s was overwritten although its translation unit (or an earlier step) failed' % w)
            elif r['exists'].get(w):
                viol('output-created', '%s was created although its translation unit (or an earlier step) failed' % w)
        allowed = set(o for o in outs if o) | ({final} if final else set())
        extra = [n for n in r['new'] if n not in allowed]
        if extra:
            viol('extra-file', 'unexpected files after a failed run: %s' % extra)
    ctx.sample({'scenario': 'chibicc -c -o out.o in0.c with fault cc1:1:segv and pre-existing sentinel out.o', 'checks': ['exit!=0', 'no temp left', 'sentinel intact', 'no extra file']})
    ctx.sample({'shapes': len(allshapes), 'scenarios': len(scen)})
    ctx.extra['exhaustive_subspaces'] = ['command shapes {-E,-S,-c,link} x {-o,default} x 1..3 inputs over {.c,.s,.o}: all %d; every pipeline step of every legal shape '
                                         'is a failure point (hows: all four in thorough / for <=2 inputs, two per step otherwise)' % len(allshapes)]
    concurrency(ctx, cc, work)
    if ctx.tier == 'thorough':
        fork_failures(ctx, cc, work)


def conc_one(a):
    (cc, d, idx, args, fault) = a
    env = {'LD_PRELOAD': PRELOAD, 'VERIF_LOG': os.path.join(d, 'log%d' % idx), 'VERIF_CNT': os.path.join(d, 'cnt%d' % idx)}
    os.makedirs(env['VERIF_CNT'], exist_ok=True)
    if fault:
        env['VERIF_FAULT'] = fault
    rc, o, e = core.sh([cc] + args, cwd=d, env=env, timeout=120)
    return rc, e.decode('utf-8', 'replace')[-200:]


def concurrency(ctx, cc, work):
    import concurrent.futures
    rounds = ctx.scale(6, 60)
    rng = ctx.rng
    for rnd in range(rounds):
        d = os.path.join(work, 'conc%d' % rnd)
        os.makedirs(d)
        n = [2, 4, 8][rnd % 3]
        same_input = rnd % 2 == 1
        jobs = []
        expect = {}
        for i in range(n):
            src = 'in0.c' if same_input else 'in%d.c' % i
            open(os.path.join(d, src), 'w').write(c_src(0 if same_input else i, main=True))
            out = 'o%d.o' % i
            fault = 'cc1:1:segv' if (rnd % 3 == 2 and i == 0) else None
            mode = rng.choice(['-c', '-c', 'link'])
            if mode == 'link':
                out = 'x%d.exe' % i
                jobs.append((cc, d, i, ['-o', out, src], fault))
            else:
                jobs.append((cc, d, i, ['-c', '-o', out, src], fault))
            expect[i] = (out, src, mode, fault)
        # serial reference outputs
        ref = {}
        for i in range(n):
            out, src, mode, fault = expect[i]
            rd = os.path.join(d, 'ref')
            os.makedirs(rd, exist_ok=True)
            a = (['-c'] if mode == '-c' else []) + ['-o', os.path.join(rd, out), src]
            core.sh([cc] + a, cwd=d)
            p = os.path.join(rd, out)
            ref[i] = open(p, 'rb').read() if os.path.exists(p) else None
        with concurrent.futures.ThreadPoolExecutor(n) as ex:
            rs = list(ex.map(conc_one, jobs))
        for i, (rc, err) in enumerate(rs):
            out, src, mode, fault = expect[i]
            ctx.count('concurrent_drivers')
            ctx.evaluations += 1
            ctx.saw(('concurrent', n, same_input, mode, bool(fault)))
            p = os.path.join(d, out)
            got = open(p, 'rb').read() if os.path.exists(p) else None
            files = {'round.json': __import__('json').dumps({'n': n, 'same_input': same_input, 'jobs': [j[3] for j in jobs], 'faults': [j[4] for j in jobs]})}
            if fault:
                if rc == 0:
                    ctx.violation('C14|concurrent|faulted-driver|exit0', 'driver with an injected cc1 crash exited 0', files=files)
                if got is not None:
                    ctx.violation('C14|concurrent|faulted-driver|output-created', 'output created despite the crash', files=files)
            else:
                if rc != 0:
                    ctx.violation('C14|concurrent|healthy-driver|failed', 'concurrent invocation failed: rc=%s %s' % (rc, err), files=files)
                elif got != ref[i]:
                    ctx.violation('C14|concurrent|healthy-driver|output-differs', 'output %s differs from a serial run of the same command' % out, files=files)
            mk, unl = [], {}
            for ln in open(os.path.join(d, 'log%d' % i), errors='replace'):
                f = ln.rstrip('\n').split('\t')
                if len(f) >= 4 and f[2] == 'mkstemp':
                    mk.append(f[3])
            left = [p2 for p2 in mk if os.path.exists(p2)]
            if left:
                ctx.violation('C14|concurrent|temp-left', 'temporaries left: %s' % left, files=files)
                for p2 in left:
                    os.unlink(p2)
        # cross-unlink across drivers
        owner = {}
        for i in range(n):
            for ln in open(os.path.join(d, 'log%d' % i), errors='replace'):
                f = ln.rstrip('\n').split('\t')
                if len(f) >= 4 and f[2] == 'mkstemp':
                    owner[f[3]] = i
        for i in range(n):
            for ln in open(os.path.join(d, 'log%d' % i), errors='replace'):
                f = ln.rstrip('\n').split('\t')
                if len(f) >= 4 and f[2] == 'unlink' and f[1] == 'driver' and owner.get(f[3], i) != i:
                    ctx.violation('C14|concurrent|cross-unlink', 'driver %d unlinked %s created by driver %d' % (i, f[3], owner[f[3]]))
        shutil.rmtree(d, ignore_errors=True)


def fork_failures(ctx, cc, work):
    d = os.path.join(work, 'forkfail')
    os.makedirs(d)
    open(os.path.join(d, 'a.c'), 'w').write(c_src(0, main=True))
    open(os.path.join(d, 'b.c'), 'w').write(c_src(1))
    for args, nproc in ((['-c', 'a.c'], 2), (['-o', 'p.exe', 'a.c', 'b.c'], 5), (['-S', 'a.c', 'b.c'], 2)):
        for k in range(1, nproc + 1):
            for f in os.listdir(d):
                if f not in ('a.c', 'b.c'):
                    os.unlink(os.path.join(d, f))
            before = set(os.listdir('/tmp'))
            rc, o, e = core.sh(['strace', '-f', '-o', '/dev/null', '-e', 'trace=clone,clone3,fork,vfork',
                                '-e', 'inject=clone,clone3,fork,vfork:error=EAGAIN:when=%d' % k, cc] + args, cwd=d, timeout=120)
            ctx.evaluations += 1
            ctx.count('fork_failures')
            ctx.saw(('fork-fail', ' '.join(args), k))
            if rc == 0:
                ctx.violation('C14|fork-fails|exit0', 'fork failed (EAGAIN, %d-th) but the driver exited 0: chibicc %s' % (k, ' '.join(args)))
    shutil.rmtree(d, ignore_errors=True)
