"""C03 - control flow and lexical scoping follow the abstract machine.

(1) Random structured functions (if/else, for/while/do, switch with every controlling type, negative / >32-bit / range
    labels, default first/middle/last/absent, fall-through, labels inside nested statements, break/continue at every
    nesting of loop-in-switch and switch-in-loop, forward/backward goto, computed goto, && || ?: , and statement
    expressions) instrumented with MARK(id): the marker trace must equal gcc == clang.
(2) Scoping programs: every declaration carries a unique value/size; shadowing across file / parameter / block / for-init
    scopes and across the name spaces (objects, typedef names, tags, enumerators, labels); every use prints what it
    resolved to."""
import os, random
from lib import core

LEVEL = 'exploration'
MIN_COUNTS = {'programs': (1000, 20000), 'markers_executed': (150000, 3000000)}

PRELUDE = '''#include "vrt.h"
static int M(long id) { MARK(id); return 1; }
static int Z(long id) { MARK(id); return 0; }
static long V(long id, long v) { MARK(id); return v; }
static double VD(long id, double v) { MARK(id); return v; }
static float VF(long id, float v) { MARK(id); return v; }
static long double VLD(long id, long double v) { MARK(id); return v; }
static char VC(long id, char v) { MARK(id); return v; }
static char *VP(long id, long v) { MARK(id); return (char *)v; }
'''

CTYPES = [('char', 8, True), ('unsigned char', 8, False), ('short', 16, True), ('unsigned short', 16, False), ('int', 32, True), ('unsigned int', 32, False),
          ('long', 64, True), ('unsigned long', 64, False), ('_Bool', 1, False)]


class G:
    def __init__(self, rng, depth):
        self.rng = rng
        self.mid = 0
        self.lab = 0
        self.cnt = 0
        self.maxdepth = depth
        self.feats = set()
        self.decls = []
        self.labels_fwd = []

    def m(self):
        self.mid += 1
        return self.mid

    def counter(self):
        self.cnt += 1
        nm = 'c%d' % self.cnt
        self.decls.append('int %s = 0;' % nm)
        return nm

    def cond(self, d=2):
        r = self.rng
        x = r.random()
        if d <= 0 or x < 0.3:
            if x < 0.1:
                # controlling operands of every scalar type (the two sides of && / || / ?: need not have the same type)
                self.feats.add('typed-operand')
                return r.choice(['VD(%d, 0.0)', 'VD(%d, 0.5)', 'VD(%d, -0.0)', 'V(%d, 1L << 32)', 'V(%d, 0)', 'VF(%d, 0.0f)', 'VF(%d, 1e-30f)', 'VLD(%d, 0.25L)', 'VLD(%d, 0.0L)',
                                 'VC(%d, 0)', 'VC(%d, -128)', '(VP(%d, 0) || 0)', '(VP(%d, 1L << 40) && 1)', '(0 || VP(%d, 1L << 40))', '!VD(%d, 0.5)', '!V(%d, 1L << 32)', '(unsigned char)V(%d, 256)']) % self.m()
            return r.choice(['M(%d)', 'Z(%d)', 'V(%d, 3) > 2', 'V(%d, -1) < 0', '!Z(%d)']) % self.m()
        if x < 0.5:
            self.feats.add('&&')
            return '(%s && %s)' % (self.cond(d - 1), self.cond(d - 1))
        if x < 0.7:
            self.feats.add('||')
            return '(%s || %s)' % (self.cond(d - 1), self.cond(d - 1))
        if x < 0.82:
            self.feats.add('?:')
            return '(%s ? %s : %s)' % (self.cond(d - 1), self.cond(d - 1), self.cond(d - 1))
        if x < 0.9:
            self.feats.add('comma')
            return '(%s, %s)' % (self.cond(d - 1), self.cond(d - 1))
        self.feats.add('stmt-expr')
        return '({ %s %s; })' % (self.stmt(self.maxdepth - 1, False, False), self.cond(d - 1))

    def block(self, d, in_loop, in_switch, n=None):
        n = n if n is not None else self.rng.randrange(1, 4)
        return '{ ' + ' '.join(self.stmt(d, in_loop, in_switch) for _ in range(n)) + ' }'

    def stmt(self, d, in_loop, in_switch):
        r = self.rng
        x = r.random()
        if d >= self.maxdepth or x < 0.25:
            y = r.random()
            if y < 0.15 and in_loop:
                self.feats.add('continue')
                return 'if (%s) continue;' % self.cond(1)
            if y < 0.3 and (in_loop or in_switch):
                self.feats.add('break')
                return 'if (%s) break;' % self.cond(1)
            if y < 0.42 and getattr(self, 'out_labels', None):
                # leave any number of enclosing loops, switches and statement expressions at once
                self.feats.add('goto-out-of-nesting')
                return 'if (%s) goto %s;' % (self.cond(1), r.choice(self.out_labels))
            return 'MARK(%d);' % self.m()
        if x < 0.40:
            self.feats.add('if')
            s = 'if (%s) %s' % (self.cond(), self.block(d + 1, in_loop, in_switch))
            if r.random() < 0.6:
                s += ' else %s' % self.block(d + 1, in_loop, in_switch)
            return s
        if x < 0.52:
            c = self.counter()
            k = r.choice(['for', 'while', 'do', 'for-decl'])
            self.feats.add(k)
            lim = r.randrange(1, 4)
            body = self.block(d + 1, True, False)
            if k == 'for':
                return 'for (%s = 0; %s < %d && %s; %s++, MARK(%d)) %s' % (c, c, lim, self.cond(1), c, self.m(), body)
            if k == 'for-decl':
                return 'for (int i%s = 0; i%s < %d; i%s++) %s' % (c, c, lim, c, body)
            if k == 'while':
                return 'while (%s++ < %d && %s) %s' % (c, lim, self.cond(1), body)
            return 'do %s while (%s++ < %d && %s);' % (body, c, lim, self.cond(1))
        if x < 0.70:
            return self.switch(d, in_loop)
        if x < 0.78:
            # forward goto over some statements
            self.lab += 1
            l = 'L%d' % self.lab
            self.feats.add('goto-forward')
            if not hasattr(self, 'out_labels'):
                self.out_labels = []
            c0 = self.cond(1)
            self.out_labels.append(l)
            b = self.block(d + 1, in_loop, in_switch)
            self.out_labels.pop()
            return 'if (%s) goto %s; %s %s: MARK(%d);' % (c0, l, b, l, self.m())
        if x < 0.84:
            self.lab += 1
            l = 'L%d' % self.lab
            c = self.counter()
            self.feats.add('goto-backward')
            return '%s: MARK(%d); %s if (%s++ < %d) goto %s;' % (l, self.m(), self.block(d + 1, in_loop, in_switch), c, r.randrange(1, 3), l)
        if x < 0.90:
            # computed goto through a label table
            self.feats.add('computed-goto')
            n = r.randrange(2, 4)
            base = self.lab
            self.lab += n + 1
            ls = ['L%d' % (base + i + 1) for i in range(n)]
            end = 'L%d' % (base + n + 1)
            c = self.counter()
            tbl = 'static void *tb%s[] = {%s};' % (c, ', '.join('&&' + l for l in ls))
            body = ' '.join('%s: MARK(%d); goto %s;' % (l, self.m(), end) for l in ls)
            return '{ %s goto *tb%s[V(%d, %d)]; %s %s: MARK(%d); }' % (tbl, c, self.m(), r.randrange(n), body, end, self.m())
        if x < 0.95:
            return self.block(d + 1, in_loop, in_switch)
        self.feats.add('stmt-expr')
        if r.random() < 0.5:
            return '(void)({ %s 1; });' % self.stmt(d + 1, False, False)
        # break / continue of the enclosing loop from inside a statement expression
        self.feats.add('stmt-expr-in-loop-context')
        return '(void)({ %s 1; });' % self.stmt(d + 1, in_loop, in_switch)

    def switch(self, d, in_loop):
        r = self.rng
        cn, bits, sg = r.choice(CTYPES)
        self.feats.add('switch:' + cn)
        if bits == 1:
            pool = [0, 1]
        else:
            lo, hi = (-(1 << (bits - 1)), (1 << (bits - 1)) - 1) if sg else (0, (1 << bits) - 1)
            pool = sorted({v for v in (0, 1, 2, 3, 5, -1, -2, 100, lo, hi, hi - 1, lo + 1, 1 << 31, (1 << 32) + 1, (1 << 40) + 7, -(1 << 33)) if lo <= v <= hi})
        nlab = r.randrange(1, min(6, len(pool)) + 1)
        labels = r.sample(pool, nlab)
        ctrl = r.choice(labels + [r.choice(pool), r.choice(pool)] + ([labels[0] + 1] if bits > 1 and labels[0] + 1 <= pool[-1] else []))
        used = set()
        items = []
        dpos = r.choice(['first', 'middle', 'last', 'absent'])
        self.feats.add('default-' + dpos)
        entries = []
        for v in labels:
            if v in used:
                continue
            if bits > 8 and r.random() < 0.2 and all(v + k not in labels or v + k == v for k in range(1, 4)) and v + 3 <= (hi if bits > 1 else 1) and not any(v < u <= v + 3 for u in used) and not any(u <= v <= u2 for (u, u2) in [(a, b) for a, b in entries if isinstance(a, int) and False]):
                rng_hi = v + r.randrange(1, 4)
                if any(v <= u <= rng_hi for u in labels if u != v) or any(v <= u <= rng_hi for u in used):
                    entries.append((v, None))
                    used.add(v)
                else:
                    entries.append((v, rng_hi))
                    used |= set(range(v, rng_hi + 1))
                    self.feats.add('case-range')
            else:
                entries.append((v, None))
                used.add(v)
        if any(abs(v) > (1 << 31) for v, _ in entries):
            self.feats.add('case-beyond-int32')
        if any(v < 0 for v, _ in entries):
            self.feats.add('case-negative')

        def lit(v):
            if bits == 64 and not sg:
                return '%dUL' % v
            if v == -(1 << 63):
                return '(-9223372036854775807L - 1)'
            return '%dL' % v if abs(v) > (1 << 31) - 1 else '(%d)' % v
        parts = []
        for (v, hi2) in entries:
            lab = 'case %s:' % lit(v) if hi2 is None else 'case %s ... %s:' % (lit(v), lit(hi2))
            body = 'MARK(%d);' % self.m()
            if r.random() < 0.5:
                body += ' ' + self.stmt(d + 1, in_loop, True)
            fall = r.random() < 0.3
            if fall:
                self.feats.add('fall-through')
            parts.append('%s %s%s' % (lab, body, '' if fall else ' break;'))
        dflt = 'default: MARK(%d);%s' % (self.m(), '' if r.random() < 0.3 else ' break;')
        if dpos == 'first':
            parts.insert(0, dflt)
        elif dpos == 'middle':
            parts.insert(len(parts) // 2, dflt)
        elif dpos == 'last':
            parts.append(dflt)
        if r.random() < 0.12 and len(parts) >= 2 and bits > 1:
            # a case label inside a nested statement of the switch body
            self.feats.add('label-in-nested-statement')
            c = self.counter()
            inner = parts.pop()
            parts.append('do { MARK(%d); %s } while (%s++ < 1);' % (self.m(), inner, c))
        if bits == 64 and not sg:
            cv = '%dUL' % ctrl
        elif ctrl == -(1 << 63):
            cv = '(-9223372036854775807L - 1)'
        else:
            cv = '%dL' % ctrl
        return 'switch ((%s)V(%d, %s)) { %s }' % (cn, self.m(), cv, ' '.join(parts))


def control_program(rng, k):
    g = G(rng, rng.choice([2, 3, 4, 5]))
    g.mid = k * 10000
    g.lab = 0
    body = ' '.join(g.stmt(0, False, False) for _ in range(rng.randrange(2, 6)))
    src = 'static void prog%d(void) {\n%s\n%s\nMARK(%d);\n}\n' % (k, '\n'.join(g.decls), body, g.m())
    return src, g.feats


# ---------------------------------------------------------------- scoping
class Scope:
    def __init__(self, parent=None):
        self.ord = {}      # ordinary identifiers: name -> ('obj', ctype) | ('typedef', size) | ('enum',)
        self.tags = {}
        self.parent = parent

    def lookup(self, name, tags=False):
        s = self
        while s:
            d = s.tags if tags else s.ord
            if name in d:
                return d[name]
            s = s.parent
        return None


def scope_program(rng, k):
    names = ['a', 'b', 'T', 'U']
    uid = [100]
    feats = set()
    oid = [0]

    def uniq():
        uid[0] += 1
        return uid[0]

    def out():
        oid[0] += 1
        return oid[0]

    def declare(sc, level):
        """emit one declaration into scope sc (file level: level == 0)"""
        nm = rng.choice(names)
        kind = rng.choice(['obj', 'obj', 'typedef', 'enum', 'tag', 'tag-forward-use'])
        if kind in ('obj', 'typedef', 'enum'):
            if nm in sc.ord:
                return ''
            if kind == 'obj':
                # the type may be a visible typedef name
                v = uniq()
                sc.ord[nm] = ('obj',)
                feats.add('obj@%d' % min(level, 3))
                st = 'static ' if (level > 0 and rng.random() < 0.2) else ''
                return '%slong %s = %d;' % (st, nm, v)
            if kind == 'typedef':
                n = uniq() % 50 + 1
                sc.ord[nm] = ('typedef',)
                feats.add('typedef@%d' % min(level, 3))
                return 'typedef char %s[%d];' % (nm, n)
            v = uniq()
            sc.ord[nm] = ('enum',)
            feats.add('enumerator@%d' % min(level, 3))
            return 'enum { %s = %d };' % (nm, v)
        if nm in sc.tags:
            return ''
        n = uniq() % 60 + 1
        sc.tags[nm] = ('struct',)
        feats.add('tag@%d' % min(level, 3))
        return 'struct %s { char m[%d]; long %s; };' % (nm, n, rng.choice(names))

    def use(sc):
        nm = rng.choice(names)
        e = sc.lookup(nm)
        t = sc.lookup(nm, tags=True)
        outp = []
        if e:
            if e[0] in ('obj', 'enum'):
                outp.append('OUTV(%d, %s);' % (out(), nm))
                outp.append('OUTV(%d, sizeof(%s));' % (out(), nm))
            else:
                outp.append('OUTV(%d, sizeof(%s));' % (out(), nm))
                if rng.random() < 0.5:
                    outp.append('{ %s tmpv; OUTV(%d, sizeof tmpv); }' % (nm, out()))
        if t:
            outp.append('OUTV(%d, sizeof(struct %s));' % (out(), nm))
        return ' '.join(outp)

    def block(sc, level, own=None):
        inner = own if own is not None else Scope(sc)
        parts = []
        for _ in range(rng.randrange(2, 7)):
            x = rng.random()
            if x < 0.35:
                parts.append(declare(inner, level))
            elif x < 0.7:
                parts.append(use(inner))
            elif x < 0.85 and level < 4:
                parts.append(block(inner, level + 1))
            elif x < 0.93 and level < 4:
                fs = Scope(inner)
                nm = rng.choice(['a', 'b'])
                fs.ord[nm] = ('obj',)
                feats.add('for-init-scope')
                body = block(fs, level + 1)
                parts.append('for (long %s = %d; %s < %d; %s += 1000000) %s' % (nm, uniq(), nm, 1000000, nm, body))
            else:
                # label name space: a label may share its name with anything
                nm = rng.choice(names)
                feats.add('label-namespace')
                parts.append('goto %s; OUTV(%d, -1); %s: OUTV(%d, 7);' % (nm, out(), nm, out())) if nm not in block.labels else None
                block.labels.add(nm)
        return '{ ' + ' '.join(p for p in parts if p) + ' }'
    filesc = Scope()
    top = [declare(filesc, 0) for _ in range(rng.randrange(2, 6))]
    fns = []
    calls = []
    for f in range(rng.randrange(1, 4)):
        ps = Scope(filesc)
        params = []
        for nm in rng.sample(['a', 'b'], rng.randrange(0, 3)):
            ps.ord[nm] = ('obj',)
            params.append('long ' + nm)
            feats.add('parameter-scope')
        block.labels = set()
        body = block(filesc, 1, own=ps)      # the outermost block of a function body shares the scope of the parameters
        fns.append('static void f%d(%s) %s' % (f, ', '.join(params) or 'void', body))
        calls.append('f%d(%s);' % (f, ', '.join(str(uniq()) for _ in params)))
    src = '#include "vrt.h"\n' + '\n'.join(t for t in top if t) + '\n' + '\n'.join(fns) + '\nint main(void) { %s return 0; }\n' % ' '.join(calls)
    return src, feats


def run_case(a):
    (idx, cc, work, src) = a
    p = os.path.join(work, 'p%d.c' % idx)
    open(p, 'w').write(src)
    verdict, r = core.three_way(cc, p, work, 'p%d' % idx, timeout=30, run_env={'VERIF_FUEL': '200000'})
    os.unlink(p)
    return idx, verdict, {k: (v['stage'], v['rc'], v['out'], v['err'][-300:]) for k, v in r.items()}


def idiom_programs(rng, k0):
    """Small dedicated programs for constructs the random generators do not produce: the GNU `a ?: b` form (first operand evaluated once),
    the scope of a declared name inside its own initializer (block-scope static, automatic, enum, for-init), shadowing across namespaces."""
    progs = []
    k = k0 * 10000
    vals = [rng.choice([0, 0, 1, 3, -1]) for _ in range(6)]
    elvis = PRELUDE + 'static long n;\nint main(void) {\n'
    for i, v in enumerate(vals):
        elvis += '  OUTV(%d, V(%d, %d) ?: V(%d, 7));\n' % (k + i, k + 100 + i, v, k + 200 + i)
        elvis += '  n = %d; OUTV(%d, n-- ?: 9); OUTV(%d, n);\n' % (v, k + 300 + i, k + 400 + i)
        elvis += '  OUTV(%d, (V(%d, %d) ?: V(%d, 0)) ?: V(%d, 5));\n' % (k + 500 + i, k + 600 + i, v, k + 700 + i, k + 800 + i)
        elvis += '  OUTV(%d, VD(%d, %s) ?: VD(%d, 2.5) );\n' % (k + 900 + i, k + 1000 + i, rng.choice(['0.0', '0.5', '-0.0']), k + 1100 + i)
    elvis += '  return 0;\n}\n'
    progs.append((elvis, {'idiom:elvis-operator'}, 'trace'))
    a, b = rng.choice([3, 5, 7]), rng.choice([2, 4, 6])
    scope = PRELUDE + 'static long n[%d]; static char link[%d]; enum { K = %d }; typedef char T[%d];\n' % (a, b, a + b, a)
    scope += ('static void f(int T) {\n  OUTV(1, sizeof(T));\n  { static long n = sizeof(n); OUTV(2, n); }\n  { static void *link = &link; OUTV(3, link == (void *)&link); OUTV(4, sizeof(link)); }\n'
              '  { long n = sizeof(n); OUTV(5, n); }\n  { enum { K = K + 1, L = K }; OUTV(6, K); OUTV(7, L); }\n  { int K = K; (void)K; OUTV(8, sizeof(K)); }\n'
              '  for (int n = sizeof(n), i = 0; i < 1; i++) { OUTV(9, n); long n = 2; OUTV(10, sizeof(n)); }\n  { struct n { char c[%d]; }; OUTV(11, sizeof(struct n)); OUTV(12, sizeof(n)); }\n'
              '  { static T; }\n  { typedef long n; n x = 0; OUTV(13, sizeof(x)); { n n = 1; OUTV(14, sizeof(n)); } }\n  { static int self = sizeof(self) + 1; OUTV(15, self); static char arr[sizeof(arr) ? 3 : 9]; }\n'
              '  goto n; n: OUTV(16, sizeof(n));\n}\nint main(void) { f(1); return 0; }\n' % (a + 1))
    scope = scope.replace('  { static T; }\n', '').replace(' static char arr[sizeof(arr) ? 3 : 9];', '')
    progs.append((scope, {'idiom:name-in-own-initializer'}, 'bind'))
    return progs


def run(ctx):
    cc = ctx.build('plain')
    work = ctx.tmpdir('c03')
    rng = ctx.rng
    ctx.rule = ('program = one random structured function instrumented with MARK(id) (fuel-bounded) or one scoping program whose declarations carry unique '
                'values/sizes; the marker trace / printed bindings must equal gcc == clang; distinct = distinct feature sets of the generated programs')
    ctx.assumptions += ['markers only in sequenced positions (;, &&, ||, ?:, comma, call boundaries); loops bounded by per-loop counters and global fuel',
                        'oracle: gcc -O0 == clang -O0 traces']
    n = ctx.scale(1200, 30000)
    progs = []
    for k in range(n):
        if k % 3 == 2:
            src, feats = scope_program(rng, k)
            kind = 'bind'
            progs.append((src, feats, kind))
        else:
            # eight control functions per translation unit (marker ids are disjoint: k * 10000 + m)
            fs, feats = [], set()
            for j in range(8):
                fsrc, f2 = control_program(rng, k * 8 + j)
                fs.append(fsrc)
                feats |= f2
            src = PRELUDE + '\n'.join(fs) + '\nint main(void) { %s return 0; }\n' % ' '.join('prog%d();' % (k * 8 + j) for j in range(8))
            progs.append((src, feats, 'trace'))
    for j in range(ctx.scale(6, 60)):
        progs += idiom_programs(rng, n + j)
    # one hand-written program of ~180 idiomatic expression statements (struct values through ?: , and =, varargs of every class, short-circuit side
    # effects, bit-field arithmetic, pointer walks, conversions, VLAs, compound literals in loops): the printed results must equal gcc == clang
    progs.append((open(os.path.join(core.VERIF, 'rt', 'idioms_exec.c')).read(), {'hand-written-idioms'}, 'idiom-exec'))
    progs.append((open(os.path.join(core.VERIF, 'rt', 'idioms_exec2.c')).read(), {'hand-written-idioms-2'}, 'idiom-exec'))
    progs.append((open(os.path.join(core.VERIF, 'rt', 'idioms_exec3.c')).read(), {'hand-written-idioms-3'}, 'idiom-exec'))
    progs.append((open(os.path.join(core.VERIF, 'rt', 'idioms_exec4.c')).read(), {'hand-written-idioms-4'}, 'idiom-exec'))
    progs.append((open(os.path.join(core.VERIF, 'rt', 'idioms_exec5.c')).read(), {'hand-written-idioms-5'}, 'idiom-exec'))
    ctx.count('programs', n)
    results = core.pmap(run_case, [(i, cc, work, p[0]) for i, p in enumerate(progs)], chunksize=8)
    for idx, verdict, r in results:
        src, feats, kind = progs[idx]
        ctx.evaluations += 1
        ctx.saw(kind + ':' + '+'.join(sorted(feats)))
        for f in feats:
            ctx.saw(f)
        if verdict == 'ref-fail':
            ctx.count('reference_failed')
            ctx.sample({'reference_failed': (r['gcc'][3] + r['clang'][3]).decode('utf-8', 'replace')[-300:], 'src': src[-400:]})
            continue
        if verdict == 'ambiguous':
            ctx.count('reference_ambiguous')
            continue
        ctx.count('markers_executed', r['gcc'][2].count(b'\n'))
        if verdict == 'agree':
            continue
        x = r['chibicc']
        files = {'prog.c': src}
        script = '$CHIBICC -I$VERIF/rt -c -o p.o prog.c && gcc -o p p.o $RT && ./p > got.txt; gcc -w -I$VERIF/rt -o q prog.c $RT && ./q > ref.txt; cmp -s got.txt ref.txt && exit 0; diff got.txt ref.txt | head -3; exit 1'
        if x[0] != 'run':
            ctx.violation('C03|%s|%s-fail' % (kind, x[0]), 'chibicc failed at stage %s on a program accepted by gcc and clang: %s' % (x[0], core.first_line(x[3].decode('utf-8', 'replace'))), files=files, script=script)
            continue
        d = core.first_diff(x[2], r['gcc'][2])
        special = [f for f in feats if f in ('case-beyond-int32', 'label-in-nested-statement', 'computed-goto', 'case-range')]
        key = 'C03|%s|%s' % (kind, core.sha(src))
        ctx.violation(key, '%s differs at line %s: chibicc %s, gcc = clang %s (features: %s)' % ('trace' if kind == 'trace' else 'binding', d[0], d[1], d[2], ','.join(sorted(feats))[:200]), files=files, script=script)
    if ctx.counts.get('reference_failed', 0) > 0.03 * n:
        ctx.note_inconclusive('%d generated programs were rejected by a reference compiler' % ctx.counts['reference_failed'])
    if ctx.counts.get('reference_ambiguous', 0) > 0.02 * n:
        ctx.note_inconclusive('gcc and clang disagree on %d programs' % ctx.counts['reference_ambiguous'])
    ctx.sample({'control_program': progs[0][0][-700:]})
    ctx.sample({'scope_program': progs[2][0][-700:]})
