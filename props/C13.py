"""C13 - every input is answered with output or a located diagnostic.

Workload: valid corpus (repo tests + compiler sources), token-level and byte-level mutants of it,
hand-seeded minimal invalid programs (and their mutants), option-borne text, deep nesting.
Monitor: wait-status / diagnostic-format monitor on direct cc1 executions of the ASan+UBSan build;
every accepted output is assembled.  Keys: kind + innermost in-repo frames (function names)."""
import os, re, random, json
from lib import core, pptok

LEVEL = 'exploration'
MIN_COUNTS = {'executions': (15000, 200000), 'diag': (8000, 100000), 'ok': (500, 5000)}

KEYWORDS = ['return', 'if', 'else', 'for', 'while', 'int', 'sizeof', 'char', 'struct', 'union', 'short', 'long',
            'void', 'typedef', '_Bool', 'enum', 'static', 'goto', 'break', 'continue', 'switch', 'case', 'default',
            'extern', '_Alignof', '_Alignas', 'do', 'signed', 'unsigned', 'const', 'volatile', 'float', 'double',
            'typeof', 'asm', '_Thread_local', '_Atomic', '__attribute__', '_Generic', 'inline', '_Noreturn',
            '__builtin_types_compatible_p', '__builtin_reg_class', '__builtin_compare_and_swap',
            '__builtin_atomic_exchange', 'alloca', '__func__', '__VA_ARGS__', '__VA_OPT__', 'defined',
            '__LINE__', '__FILE__', '__COUNTER__', 'packed', 'aligned', 'include', 'define', 'undef', 'ifdef',
            'ifndef', 'elif', 'endif', 'line', 'pragma', 'once', 'error', 'include_next', '__va_area__']
POOL_PUNCT = pptok.PUNCTS + ['{', '}', '(', ')', '[', ']', ';', ',', ':', '=', '#', '##', '...', '.', '->', '*', '&']
POOL_LIT = ['0', '1', '-1', '2147483648', '0x7fffffffffffffff', '18446744073709551615u', '1.5', '1e400', '0x1p-3',
            '1.5L', '2.0f', '08', '0b101', '1uu', "'a'", "'\\0'", "L'x'", "u'\\xffff'", "''", '"s"', '""', 'L"w"',
            'u8"a"', 'u"b"', 'U"c"', '"\\x"', '"\\777"', '0.0/0', '(', '{', '1/0', '1%0', '-2147483648',
            '4294967296', '99999999999999999999999', '\\', '@', '`', '$', '\x7f']

SNIPPETS = r'''
void f(int[3]) {}
int sum(int [4], int n) { return n; }
int g(int (*)[3], char *[], int [static 2], int [*]) { return 0; }
int h(int a[], int [], struct S *) { return 0; }
void k(void (int), int (void)) {}
int table[4] = {[1 ... 4] = 7};
int table[4] = {[1 ... 3] = 7, [0 ... 0] = 1, [3 ... 4] = 2};
int table[4] = {[4 ... 4] = 7};
int table[4] = {[3 ... 1] = 7};
int table[] = {[1 ... 4] = 7, [2 ... 9] = 1};
int f(void) { int t[4] = {[1 ... 4] = 7}; return t[0]; }
struct { int a[3]; int b; } sd = {.a[1 ... 3] = 5};
struct { int a[3]; int b; } sd = {.a = {[0 ... 2] = 1}, .b = 2};
char cs[3] = {[0 ... 2] = 'x', [3] = 0};
long double ldf(long a, long b, long c, long d, long e, long f, long g, long double x) { return x + g; } long double ldc(void) { return ldf(1, 2, 3, 4, 5, 6, 7, 8.5L); }
long double ldf(long a, long b, long c, long d, long e, long f, long g, long h, long double x, long double y) { return x + y; } long double ldc(void) { return ldf(1, 2, 3, 4, 5, 6, 7, 8, 9.5L, 1.5L); }
struct LD { long double v; int t; }; int ldf(int a, int b, int c, int d, int e, int f, int g, struct LD s) { return s.t; } int ldc(void) { struct LD s = {1.5L, 2}; return ldf(1, 2, 3, 4, 5, 6, 7, s); }
double va(int n, ...); double vc(void) { return va(3, 1, 2.5, 3.5L, 4, 5, 6, 7, 8, 9.5L); }
#define C(a,b) a##b
C(/,/)
#define C(a,b) a##b
C(/,*) x */
#define C(a,b) a##b
int C(/,/) y;
#define F(x) x ##
F()
#define F(x) ## x
F()
#define F(x,y) x ## y ##
F(,)
#define O a ##
O
#line 2147483647
int f(void) { return 1; }
#line 2147483646 "z.c"
int f(void) { return 1 +
 2; }
#line 4294967296
int x;
static int x = 1; int x = 2;
_Thread_local int x; int x = 2;
static _Thread_local int x; int x = 2; int x;
_Thread_local int x; _Thread_local int x = 1;
int x = 1; static int x = 2;
static int x; int x = 2; int x;
extern int x; static int x = 3;
long y = (-9223372036854775807L-1)%-1;
int big_t[100000000] = {1};
int big_u[] = {[2000000000] = 1};
int big_f(void) { int a[] = {[50000000] = 1}; return a[0]; }
struct { int x[3]; } big_s[] = { [2000000].x[1] = 1 };
char big_c[3000000000];
int big_w[44294967296] = {[3 ... 1] = 7};
long big_l[70000000] = {[69999999] = 1};
char big_2[65536][65536];
int big_ok[300000] = {1};
long y = (-9223372036854775807L-1)%-1L + (-9223372036854775807L-1)/-1L;
enum { E = (-9223372036854775807L-1) % -1 };
int y = (-2147483647-1) % -1; int z = (-2147483647-1) / -1;
unsigned long y = 18446744073709551615u % -1; unsigned long z = 18446744073709551615u / -1;
int a[1 + ((-9223372036854775807L-1) % -1)];
int f(int c) { switch (c) { case (-9223372036854775807L-1) % -1: return 1; } return 0; }
char s[] = "ab" L"cd";
char s[3] = "ab" L"cd" "ef";
int x = "a" u"b";
int *p = "ab" U"cd";
void f(void) { "ab" L"cd" = 1; }
void f(void) { int x = sizeof("ab" L"cd") / 0; }
unsigned short w[] = "x" u"y" "z"; char c[] = u8"a" "b" L"c";
int f(void) { return "ab" L"cd" + 1.5; }
struct T3 { char a[3]; } x3, y3; void f(void) { __builtin_atomic_exchange(&x3, y3); }
struct T5 { char a[5]; } x5, y5; void f(void) { __builtin_atomic_exchange(&x5, y5); }
struct T6 { short a[3]; } x6, y6; void f(void) { __builtin_atomic_exchange(&x6, y6); }
struct T7 { char a[7]; } x7, y7; void f(void) { __builtin_atomic_exchange(&x7, y7); }
struct T16 { long a[2]; } x16, y16; void f(void) { __builtin_atomic_exchange(&x16, y16); }
struct T3 { char a[3]; } x3, y3, z3; int f(void) { return __builtin_compare_and_swap(&x3, &y3, z3); }
struct T12 { int a[3]; } x12, y12, z12; int f(void) { return __builtin_compare_and_swap(&x12, &y12, z12); }
_Atomic struct { char a[3]; } at3; void f(void) { at3 = at3; }
_Atomic struct { char a[3]; } at3; void f(void) { at3.a[0] += 1; }
_Atomic long double ald; void f(void) { ald += 1; ald++; }
_Atomic struct { long a, b; } at16; void f(void) { at16 = at16; }
int x = 1/0;
int x = 1%0;
long y = (-9223372036854775807L-1)/-1;
int a[-1];
int a[1/0];
int a[2147483647][2147483647];
char a[300000000];
struct T { int :3; int a; } t; int f(void){ return t.a; }
struct T { int :0; int a; } t; int f(void){ return t.a; }
struct T { int a:40; } t;
struct T { int a:-1; } t;
struct T { long f:40; } s; void g(void){ s.f = 1; }
struct T { union { int a; }; int b; }; struct T v = { .b = 1, .a = 2 };
union U { struct { int a; }; int b; }; union U v = { .a = 2 };
struct T { union { int a; int c; }; int b; }; struct T v = { .c = 1 };
long double ld = 1.5L;
static _Bool b = 2;
#include foo
#include
#include <
#include "nonexistent_file.h"
#include <nonexistent_file.h>
#include_next <nonexistent_file.h>
#define F(x) #y
#define F(x) ## x
#define F(x) x ##
#define F(x, x
#define F(
#define 1
#undef 1
#if
#if 1 +
#if (
#elif 1
#else
#endif
#if 0
#ifdef
#ifndef 3
#line foo
#line 0
#line 2147483647
#line 4294967295
#line 1 2
# 99999999999 "x"
#error stop
#foo
#pragma
#pragma once extra
#if 1/0
#endif
#if 1%0
#endif
#if defined
#endif
#if defined(
#endif
#if 1 ? 2
#endif
#define F(x) x
F(
#define G(x,y) x y
G(1)
#define H() 1
H(1,2)
#define V(...) __VA_OPT__(
V(1)
#define CAT(a,b) a##b
CAT(+,-)
CAT(",")
CAT(/,/)
int f(void) { return g(); }
int f(void) { return x; }
int f(void) { break; }
int f(void) { continue; }
int f(void) { case 1:; }
int f(void) { default:; }
int f(void) { goto nowhere; }
int f(void) { void *p = &&nowhere; }
int f(void) { int x; x.a = 1; }
int f(void) { struct S { int a; } s; s.b = 1; }
int f(void) { int x; return *x; }
int f(void) { void *p; return *p; }
int f(void) { int a[2]; a = 0; }
int f(void) { 1 = 2; }
int f(void) { int x; &x = 0; }
int f(void) { struct { int b:3; } s; return &s.b; }
int f(void) { return ({ }); }
int f(void) { return ({ int x; }); }
int f(void) { int n = 3; int a[n] = {1}; }
int f(void) { void v; }
void v;
int f(int, int x) { return x; }
int f(void) { return f(1); }
int f(int a) { return f(); }
int f(void) { int x; x(); }
int f(void) { switch (1) { case 1 ... 0:; } }
int f(void) { switch (1.5) { case 1:; } }
int f(void) { struct S s; }
int f(void) { return sizeof(struct S); }
int f(void) { enum E e; }
int f(void) { return _Generic(1.0f, int: 1); }
int f(void) { return _Generic(1, default: 1, default: 2); }
int f(void) { asm(1); }
int f(void) { asm("nop" }
int f(void) { return 1 +; }
int f(void) { return (int; }
int f(void) { return (struct {int a;}){1}; }
int f(void) { int a[2] = { [2] = 1 }; }
int f(void) { int a[2] = { [-1] = 1 }; }
int f(void) { int a[2] = { [1 ... 0] = 1 }; }
int f(void) { int a[] = { [100000] = 1 }; }
int a[] = { [100000] = 1 };
int f(void) { struct { int a; } s = { .b = 1 }; }
int f(void) { int x = { .a = 1 }; }
int f(void) { int x = { [0] = 1 }; }
int g; int f(void) { static int y = g; }
int g; int *p = &g + g;
int g; int h = g;
float ff = &g;
int f(void) { return 1; } int f(void) { return 2; }
int f(void); static int f(void) { return 1; }
int f; int f(void) { return 1; }
typedef int;
typedef struct S T; T t;
int long char x;
unsigned float x;
long long long x;
short double x;
void void x;
_Alignas(3) int x;
_Alignas(0) int x;
_Alignas int x;
int x __attribute__((unknown));
struct __attribute__((aligned(0))) S { int a; } s;
struct __attribute__((aligned(3))) S { int a; } s;
struct __attribute__((aligned(-8))) S { int a; } s;
struct S { struct S s; } x;
struct S { int a[]; int b; } x;
struct S { int a; int a[]; } x = {1, {2,3}};
union U { int a[]; } u = {{1}};
struct S { void v; } x;
enum E { A = 1/0 };
enum E { A, A };
enum { X = 99999999999 };
int f(void) { return __builtin_types_compatible_p(int); }
int f(void) { int x; __builtin_compare_and_swap(x, x, x); }
int f(void) { int x; __builtin_compare_and_swap(&x, x, x); }
int f(void) { int x; __builtin_atomic_exchange(x, x); }
int f(void) { return alloca; }
int f(void) { char *p = alloca(); }
int f(int x) { int x; return x; }
int f(void) { "abc" "def" L"x" u"y"; }
char *s = "abc" u"def" U"ghi";
char *s = "unterminated
char c = 'x
char c = '';
int x = 0x;
int x = 1.2.3;
int x = 1e;
int x = 09;
int x = 1e+;
int x = 0b2;
int x = 1ulll;
/* unterminated
int @ x;
int \u0000 x;
int \U0010FFFF x;
int \uD800 = 1;
char *s = "\xfffffffff";
char *s = "\u12";
int x = '\400';
int f(void) { return 1 ? (void)0 : 2; }
int f(void) { return (void)1 + 1; }
int f(void) { struct {int a;} s, t; return s + t; }
int f(void) { struct {int a;} s; return -s; }
int f(void) { struct {int a;} s; return !s; }
int f(void) { struct {int a;} s; if (s) return 1; }
int f(void) { struct {int a;} s; return (int)s; }
int f(void) { int x; return (struct {int a;})x; }
int f(void) { int *p, *q; return p + q; }
int f(void) { int *p; return 1 - p; }
int f(void) { int *p; double d; return p + d; }
int f(void) { double d; return d % 2; }
int f(void) { double d; return d << 2; }
int f(void) { double d; return ~d; }
int f(void) { double d; return d & 1; }
int f(void) { long double d; return d % 2; }
int f(void) { float d; return d | 1; }
void g(void); int f(void) { return g() + 1; }
void g(void); int f(void) { int x = g(); }
struct S { int a; }; struct S g(void); int f(void) { return g(); }
struct S { double a; }; void g(struct S, struct S, struct S, struct S, double, double, double, double, double); void f(void) { struct S s; g(s,s,s,s,1,2,3,4,5); }
struct S { double a; }; void g(struct S, struct S, struct S, struct S, struct S, struct S, struct S, struct S, struct S); void f(void) { struct S s; g(s,s,s,s,s,s,s,s,s); }
struct S { long a; double b; }; void g(long, long, long, long, long, struct S); void f(void) { struct S s; g(1,2,3,4,5,s); }
struct S { long a; double b; }; long g(long a, long b, long c, long d, long e, struct S s) { return s.a; }
struct S { char a[3]; }; struct S g(struct S a, struct S b, struct S c, struct S d, struct S e, struct S f, struct S h) { return h; }
struct S { float a; float b; float c; }; struct S g(struct S a) { return a; } void f(void) { struct S s; s = g(s); }
struct S { long double a; }; struct S g(struct S a) { return a; } void f(void) { struct S s; s = g(s); }
union U { long double a; char c; }; union U g(union U a) { return a; } void f(void) { union U s; s = g(s); }
struct S { char c; double d; } ; struct S g(void) { struct S s; return s; }
struct S { float f; }; struct S g(void) { struct S s; return s; }
struct S { char c[5]; float f; }; struct S g(struct S s) { return s; }
struct S {}; struct S g(struct S s) { return s; } void f(void) { struct S s; g(s); }
struct S { int a[0]; }; struct S g(struct S s) { return s; }
void f(int n) { int a[n][n]; int (*p)[n] = a; sizeof(int[n][n]); }
void f(int n) { int a[n]; goto l; { int b[n]; l:; } }
void f(void) { int a[0]; int b[0][0]; }
int f(void) { return sizeof(void); }
int f(void) { return sizeof(int(void)); }
int f(void) { return _Alignof(void); }
int (*f(void))[3] { return 0; }
int f(void)(void) { }
int f[3](void);
int f(void)[3];
int main(int argc, char **argv) { return main; }
__thread int t = 1; int *p = &t;
extern int e = 1;
static extern int se;
typedef static int ts;
inline int v;
int f(void) { typedef int T; T T; return T; }
int f(void) { for (int i = 0; i < 3; i++) int j; }
int f(void) { if (1) int j; }
int f(void) { l: int j; }
int f(void) { l: }
int f(void) { switch (1) { int x; case 1: return x; } }
int f(void) { do ; while (0) }
int f(void) { return 1 ?: ; }
long f(void) { return 1 ?: 2.0; }
int f(void) { goto *1; }
int f(void) { goto *1.5; }
void f(void) { void *p = &&l; l: goto *p; }
_Atomic struct { int a; } s; void f(void) { s.a++; }
_Atomic double d; void f(void) { d += 1; d++; }
_Atomic long double d; void f(void) { d += 1; }
_Atomic int *p; void f(void) { (*p)++; p++; }
_Atomic(int x;
int f(void) { long double a, b; a = b = 1; return a < b; }
int f(void) { return (long double)1 ? 1 : 2; }
'''


SYSHEADERS = ['assert.h', 'ctype.h', 'errno.h', 'fenv.h', 'float.h', 'inttypes.h', 'iso646.h', 'limits.h', 'locale.h', 'math.h', 'setjmp.h', 'signal.h', 'stdalign.h',
              'stdarg.h', 'stdatomic.h', 'stdbool.h', 'stddef.h', 'stdint.h', 'stdio.h', 'stdlib.h', 'stdnoreturn.h', 'string.h', 'threads.h', 'time.h', 'uchar.h', 'wchar.h',
              'wctype.h', 'complex.h', 'tgmath.h', 'unistd.h', 'fcntl.h', 'sys/stat.h', 'sys/types.h', 'sys/mman.h', 'pthread.h', 'dirent.h', 'termios.h', 'sys/socket.h',
              'netinet/in.h', 'sys/wait.h', 'sys/time.h', 'sys/resource.h', 'sys/select.h', 'poll.h', 'regex.h', 'glob.h', 'getopt.h', 'libgen.h', 'strings.h', 'alloca.h',
              'semaphore.h', 'sched.h', 'spawn.h', 'dlfcn.h', 'elf.h', 'endian.h', 'byteswap.h', 'search.h', 'sys/uio.h', 'sys/un.h', 'arpa/inet.h', 'netdb.h', 'pwd.h', 'grp.h',
              'utime.h', 'sys/utsname.h', 'sys/ioctl.h', 'syslog.h', 'wordexp.h', 'fnmatch.h', 'ftw.h', 'iconv.h', 'langinfo.h', 'monetary.h', 'nl_types.h', 'ucontext.h',
              'sys/epoll.h', 'sys/eventfd.h', 'sys/inotify.h', 'sys/prctl.h', 'sys/ptrace.h', 'sys/sysinfo.h', 'sys/timerfd.h', 'linux/limits.h', 'malloc.h', 'execinfo.h',
              'error.h', 'err.h', 'obstack.h', 'argp.h', 'mntent.h', 'paths.h', 'printf.h', 'link.h', 'ifaddrs.h', 'net/if.h', 'sys/statvfs.h', 'sys/sem.h', 'sys/shm.h', 'sys/msg.h']


def snippet_list():
    res = []
    cur = []
    for line in SNIPPETS.strip('\n').split('\n'):
        # directives that need a following line are grouped with it
        cur.append(line)
        s = line.strip()
        if s.startswith('#define') or s.startswith('#if'):
            continue
        res.append('\n'.join(cur) + '\n')
        cur = []
    if cur:
        res.append('\n'.join(cur) + '\n')
    return res


def mutate(text, rng, idents):
    toks = pptok.lex(text)
    if not toks:
        return text + rng.choice(POOL_PUNCT)
    nedit = rng.choice([1, 1, 1, 2, 2, 3])
    parts = []   # list of (start, end, replacement)
    for _ in range(nedit):
        i = rng.randrange(len(toks))
        t = toks[i]
        op = rng.randrange(7)
        if op == 0:     # delete
            parts.append((t.start, t.end, ''))
        elif op == 1:   # replace with pool token
            parts.append((t.start, t.end, pick(rng, idents)))
        elif op == 2:   # insert before
            parts.append((t.start, t.start, pick(rng, idents) + ' '))
        elif op == 3:   # duplicate
            parts.append((t.start, t.start, t.text + ' '))
        elif op == 4 and i + 1 < len(toks):   # swap with next
            u = toks[i + 1]
            parts.append((t.start, u.end, u.text + ' ' + t.text))
        elif op == 5:   # byte-level noise
            noise = rng.choice(['\x00', '\xff', '\xc3', '\xe2\x82', '\xf0\x9f', '\r', '\\', '\\\n', '\x01', '\xef\xbb\xbf',
                                '/*', '*/', '//', '"', "'", '\n#', '\n# ', '\t', '\x0c'])
            pos = rng.randrange(t.start, t.end + 1)
            parts.append((pos, pos, noise))
        else:           # replace by a token of the same file
            parts.append((t.start, t.end, rng.choice(toks).text))
    parts.sort()
    out = []
    pos = 0
    for s, e, r in parts:
        if s < pos:
            continue
        out.append(text[pos:s])
        out.append(r)
        pos = e
    out.append(text[pos:])
    return ''.join(out)


def pick(rng, idents):
    r = rng.random()
    if r < 0.3:
        return rng.choice(KEYWORDS)
    if r < 0.6:
        return rng.choice(POOL_PUNCT)
    if r < 0.8:
        return rng.choice(POOL_LIT)
    return rng.choice(idents) if idents else 'x'


def nesting_cases():
    res = []
    for d in (50, 200):
        res.append('int x = ' + '(' * d + '1' + ')' * d + ';\n')
        res.append('int f(void) { ' + '{' * d + '}' * d + ' return 0; }\n')
        res.append('int x = ' + '-' * d + '1;\n')
        res.append('int x = ' + '!' * d + '1;\n')
        res.append('int ' + '*' * d + 'p;\n')
        res.append('int a' + '[1]' * min(d, 60) + ';\n')
        res.append('int x = ' + '1+' * d + '1;\n')
        res.append('int x = ' + '1?' * d + '1' + ':1' * d + ';\n')
        res.append('int f(void) { ' + 'if (1) ' * d + '; return 0; }\n')
        res.append('int f(void) { ' + 'for(;;) ' * d + '; return 0; }\n')
        res.append('int f(void) { return ' + '({' * d + '1;' + '});' * d + ' }\n'.replace(';;', ';'))
        res.append('struct S { ' + 'struct { ' * d + 'int a;' + ' };' * d + ' } s;\n')
        res.append('#define A(x) x\nint x = ' + 'A(' * d + '1' + ')' * d + ';\n')
        res.append(''.join('#if 1\n' for _ in range(d)) + 'int x;\n' + ''.join('#endif\n' for _ in range(d)))
        res.append('int x[] = ' + '{' * min(d, 60) + '1' + '}' * min(d, 60) + ';\n')
        res.append('int (' * d + 'x' + ')' * d + ';\n')
        res.append('int x = sizeof ' * 1 + 'sizeof ' * d + '1;\n')
        res.append('typedef int T; T ' + '(' * d + 'f' + ')' * d + '(void);\n')
    return res


VLA_IDIOMS = r'''
int m = 3; int f(int a[][m]) { return a[1][1]; }
int n = 3; int f(int a[n]) { return a[0] + sizeof(a); }
int m = 3; int f(int (*a)[m]) { return a[1][1] + sizeof(*a); }
int f(int n, int a[n]); int f(int n, int a[n]) { return a[0]; }
int f(int n, int m, int a[n][m]) { return a[1][1]; }
int f(int n) { typedef int T[n]; T a, b; T *p = &a; return sizeof(T) + sizeof(*p) + sizeof b; }
int f(int n, void *v) { int (*p)[n] = (int (*)[n])v; return (*p)[1] + sizeof(*p); }
int f(int n) { int a[n][n]; a[1][1] = 3; int (*r)[n] = a; return r[1][1] + sizeof(a) / sizeof(a[0]); }
int f(int n) { int k = sizeof(int[n++]); return k + n; }
int f(int n) { struct S { int x; } a[n]; a[0].x = 1; return a[0].x + sizeof a; }
int f(int n) { for (int a[n], i = 0; i < n; i++) a[i] = i; return n; }
int f(int n) { int a[n]; typeof(a) b; typeof(int[n]) c; return sizeof(b) + sizeof(c); }
int f(int n) { char a[n + 1]; char (*p)[n + 1] = &a; return sizeof(*p) == sizeof a; }
int f(int n) { int a[n]; return _Generic(&a[0], int *: 1, default: 2); }
int g(int n, int a[n][n]); int f(int n) { int a[n][n]; return g(n, a); }
int f(int n) { int g(int k, int b[k]); int a[n]; return g(n, a); }
int f(int n, int m) { long a[n][m][2]; return sizeof(a[0]) + sizeof(a[0][0]) + sizeof(a[0][0][0]); }
void *f(int n) { static int (*p)[3]; int a[n][3]; p = a; return p; }
int f(int n) { int s = 0; for (int i = 1; i < n; i++) { int a[i]; a[0] = i; s += a[0] + sizeof a; } return s; }
int f(int n) { int a[n]; switch (n) { case 1: return a[0] = 1; default: return sizeof a; } }
struct S { int n; }; int f(struct S *s) { int a[s->n]; return sizeof a; }
int f(unsigned char n) { int a[n]; return sizeof a; } int g(long n) { char a[n]; return sizeof a; } int h2(unsigned long n) { char a[n]; return sizeof a; }
int f(int n) { int a[n][n]; int (*p)[n] = a + 1; int (*q)[n] = &a[2]; return q - p; }
int f(int n, int (*a)[n]) { return a[1] - a[0]; }
int f(int n, int a[n][n]) { return sizeof(a[0]) + sizeof(*a) + (a[1] - a[0]); }
int f(int n, int a[][n]) { int (*p)[n] = a; return p[1][0]; }
void f(int n, int a[n], int b[sizeof(a)]) { }
void f(int n, int a[n], int (*g)(int (*)[n])) { }
void f(int n, struct { int x[3]; } a[n]) { }
int f(int a, int b[a], int c[sizeof b]) { return 0; }
int f(int n, int (*(*g)(int k, int (*)[k]))[n]) { return 0; }
int f(int n, char s[const n]) { return s[0]; }
int f(int n, char s[static n + 1]) { return s[n]; }
int f(int n, int a[static 3], int b[const 3], int c[restrict], int d[volatile restrict static 2]) { return a[0] + b[0] + c[0] + d[0] + n; }
typedef int F(int); F f; int f(int x) { return x; } F g, *pg; int g(int x) { return -x; }
typedef int F(int); int h(void) { F f; return f(1); } int f(int x) { return x; }
typedef void V; int f(V); double half(double), twice(double), pi = 3.0; int g(V) { return 1; } int x1 = 1; static int x2;
typedef void V; V g(V); V g(V) { } int x = 1; int y = 2; int f(V) { return x + y; }
int pick(int n, int (**rows)[n], int i, int j, int k) { return rows[k][i][j]; }
int pick2(int n, int (*blk[])[n], int i) { return (*blk[i])[1]; }
int pick3(int n, int m, long (***p)[n][m]) { return (**p)[1][1][1] + sizeof(***p); }
double half(double), twice(double), pi = 3.0; int a1(void), *a2(void), (*a3)(void), a4; int a1(void) { return a4; }
int f(void) { int l1(void), l2(int); return l1() + l2(2); }
static int s1(void), s2(void); static int s1(void) { return s2(); } static int s2(void) { return 1; } extern int e1(int), e2(int);
'''


def valid_cases(rng, n):
    """Programs built to be valid: redeclarations with every order of storage-class specifiers, 64-bit case labels, parenthesised abstract
    declarators.  Whether each one really is valid is decided by gcc and clang (both must accept it without -w hiding an error)."""
    res = []
    FD = ['static int f(int);', 'int f(int);', 'extern int f(int);', 'inline int f(int x) { return x; }', 'static inline int f(int x) { return x; }',
          'extern inline int f(int x) { return x; }', 'int f(int x) { return x; }', 'static int f(int x) { return x; }', 'extern inline int f(int);', 'inline int f(int);',
          'static inline int f(int);', 'int f();', 'extern int f(int x) { return x; }']
    OD = ['static int x;', 'int x;', 'extern int x;', 'int x = 1;', 'static int x = 1;', 'extern int x;', 'int x;']
    AD = ['extern int a[];', 'int a[];', 'int a[3];', 'extern int a[3];', 'int a[3] = {1, 2, 3};', 'int a[] = {1, 2, 3};', 'static int a[3];']
    VLA = [l for l in VLA_IDIOMS.strip('\n').split('\n') if l.strip()]
    # hand-written idioms, one per C11 feature or corner of the declaration / expression / initializer syntax (rt/valid_idioms.txt)
    VLA += [b.strip('\n') for b in open(os.path.join(core.VERIF, 'rt', 'valid_idioms.txt')).read().split('\n----\n') if b.strip()]
    for i in range(n):
        k = i % 7
        if k == 6:
            if i // 7 < len(VLA):
                res.append(('valid-idiom', VLA[i // 7] + '\n'))
                # the same idiom followed by declarations that only work at file scope: whatever the idiom opened (a scope, a pending
                # state) must have been closed again
                if 'zz_tail' not in VLA[i // 7] and 'main' not in VLA[i // 7]:
                    res.append(('valid-idiom-then-file-scope', VLA[i // 7] + '\nint zz_tail_f(void), zz_tail_g(int), zz_tail_v = 3; int zz_tail_f(void) { return zz_tail_v; } static int zz_tail_s; int zz_tail_s2 = 1; typedef int zz_tail_t; zz_tail_t zz_tail_v2;\n'))
            else:
                # a random parameter list in which later parameters use earlier ones in their array sizes
                names = ['n', 'm', 'k']
                ps = ['int n']
                for j in range(rng.randrange(1, 4)):
                    dims = ''.join('[%s]' % rng.choice(names[:1 + min(j, 2)] + ['', '3', 'n + 1', 'sizeof(n)', 'static n' if True else 'n']) for _ in range(rng.randrange(1, 4)))
                    dims = dims.replace('[]', '[n]', dims.count('[]') - 1) if dims.startswith('[]') else dims.replace('[]', '[2]')
                    dims = re.sub(r'(?<=\])\[static n\]', '[n]', dims)
                    form = rng.choice(['%s a%d%s', '%s (*a%d)%s', '%s *a%d%s'])
                    ps.append(form % (rng.choice(['int', 'char', 'long double', 'struct { char c[3]; }']), j, dims))
                    if j < 2:
                        ps.append('int %s' % names[j + 1])
                res.append(('valid-variably-modified-type', 'long f(%s) { return sizeof(*a0) + n; }\nlong g(%s);\n' % (', '.join(ps), ', '.join(ps))))
            continue
        if k == 0:
            ds = [rng.choice(FD) for _ in range(rng.randrange(2, 5))]
            seen = False
            out = []
            for d in ds:
                if '{' in d:
                    if seen:
                        continue
                    seen = True
                out.append(d)
            pos = rng.randrange(1, len(out) + 1)
            out.insert(pos, 'int use(void) { return f(1); }')
            if rng.random() < 0.3:
                out.insert(rng.randrange(0, len(out) + 1), 'int blk(void) { extern int f(int); return f(2); }' if rng.random() < 0.5 else 'int blk(void) { int f(int); return f(2); }')
            res.append(('valid-function-redeclaration', '\n'.join(out) + '\n'))
        elif k == 1:
            ds = [rng.choice(OD) for _ in range(rng.randrange(2, 5))]
            seen = False
            out = []
            for d in ds:
                if '=' in d:
                    if seen:
                        continue
                    seen = True
                out.append(d)
            out.insert(rng.randrange(1, len(out) + 1), 'int use(void) { return x; }')
            if rng.random() < 0.4:
                out.insert(rng.randrange(0, len(out) + 1), 'int blk(void) { extern int x; return x; }')
            res.append(('valid-object-redeclaration', '\n'.join(out) + '\n'))
        elif k == 2:
            ds = [rng.choice(AD) for _ in range(rng.randrange(2, 4))]
            seen = False
            out = []
            for d in ds:
                if '=' in d:
                    if seen:
                        continue
                    seen = True
                out.append(d)
            out.insert(rng.randrange(1, len(out) + 1), 'int use(void) { return a[0]; }')
            res.append(('valid-array-redeclaration', '\n'.join(out) + '\n'))
        elif k == 3:
            ty = rng.choice(['long', 'unsigned long', 'long long', 'unsigned long long', 'int', 'unsigned', 'short', 'char', 'unsigned char', '_Bool'])
            labels = rng.sample(['0', '1', '-1', '0x7fffffff', '0x80000000', '0xffffffff', '0x100000000', '-0x80000000L', '-0x80000001L', '0x7fffffffffffffff',
                                 '(-0x7fffffffffffffffL-1)', '0xffffffffffffffffUL', '4294967296', '255', '256', '-129', '65536', "'a'", '1LL << 40', '(long)1e10'], rng.randrange(2, 7))
            body = ''.join('  case %s: return %d;\n' % (l, j + 1) for j, l in enumerate(labels))
            if rng.random() < 0.4:
                body += '  case 0x200000000 ... 0x200000010: return 77;\n'
            if rng.random() < 0.5:
                body += '  default: return 99;\n'
            res.append(('valid-switch-labels', 'int classify(%s v) {\n  switch (v) {\n%s  }\n  return 0;\n}\n' % (ty, body)))
        elif k == 4:
            d = rng.choice([1, 2, 3, 8, 20, 34, 40, 64])
            inner = rng.choice(['*', '*', '**', '*const', '(*)(void)', '[3]', '(*)[2]', '*(*)(int)', ''])
            suffix = rng.choice(['', '', '[2]', '(void)']) if inner not in ('', '[3]') else ''
            if inner == '':
                tn = 'int'
            else:
                tn = 'int ' + '(' * d + inner + ')' * d + suffix
            if tn.endswith('(void)') and inner in ('*', '**', '*const') and d == 0:
                tn = 'int *'
            use = rng.choice(['unsigned long v = sizeof(%s);', 'unsigned long v = _Alignof(%s);', 'void *v = (void *)(%s)0;' if inner in ('*', '**', '*const', '(*)(void)', '*(*)(int)', '(*)[2]') and not suffix else 'unsigned long v = sizeof(%s);',
                              'int v = _Generic((%s)0, default: 1);' if inner in ('*', '**', '(*)(void)') and not suffix else 'unsigned long v = sizeof(%s);', 'typeof(%s) *v;', '_Atomic(%s) *v;' if not suffix and inner != '[3]' else 'typeof(%s) *v;'])
            res.append(('valid-abstract-declarator', (use % tn) + '\n'))
        else:
            res.append(('valid-misc', rng.choice([
                'typedef int T; typedef int T; T t;\n', 'struct S; struct S *p; struct S { int a; }; int g(void) { return p->a; }\n', 'int f(); int f(int x) { return x; }\n',
                'int f(int a[]); int f(int *a) { return a[0]; }\n', 'int f(int (*g)(void)); int f(int g(void)) { return g(); }\n', 'enum E { A, B }; enum E e; int e2 = A; enum E f(void);\n enum E f(void) { return B; }\n',
                'extern int n; int n; int n; static int m; static int m;\n', 'void f(void); void f(); void f(void) {}\n', 'int f(const int); int f(int x) { return x; }\n',
                'static int f(void); int g(void) { return f(); } static int f(void) { return 1; }\n', 'inline int f(void) { return 1; } extern int f(void); int g(void) { return f(); }\n',
                'int main(void) { struct T { int a; }; { struct T; struct T *p; struct T { long b; } t; p = &t; return p->b; } }\n',
                'int f(void) { typedef int x; { int x = 3; return x; } }\n', 'int f(int n) { int T = n; typedef int U; { U T2 = T; return T2; } }\n',
                'typedef struct { int a; } S; int f(void) { S S; S.a = 1; return S.a; }\n', 'int x; int f(void) { int x = x; return sizeof(x); }\n',
                'void f(void) { goto a; { b: ; } a: goto b; }\n', 'int f(int i) { switch (i) case 1: return 2; return 0; }\n', 'int f(int i) { switch (i) { int k; default: k = i; return k; } }\n',
                'int f(void) { for (struct { int a; } s = {0}; s.a < 3; s.a++) ; return 0; }\n', 'char *s = "a" "b" /* c */ "d"; char t[] = "abc" "\\0";\n',
            ])))
    return res


def run_valid(a):
    (idx, cc, workdir, name, text) = a
    p = os.path.join(workdir, 'v%d.c' % idx)
    open(p, 'w').write(text)
    out = {}
    for comp in ('gcc', 'clang'):
        rc, o, e = core.sh([comp, '-std=gnu11', '-fsyntax-only', '-Wno-everything' if comp == 'clang' else '-w', p], timeout=60)
        out[comp] = rc
    s = os.path.join(workdir, 'v%d.s' % idx)
    rc, o, e = core.sh(core.cc1_cmd(cc, p, s, []), env=core.SAN_ENV, timeout=30, cwd=workdir)
    kind, det, msg = classify(rc, o, e, p, [])
    if kind == 'ok':
        arc, ao, ae = core.sh(['as', '-o', '/dev/null', s], timeout=60)
        if arc != 0:
            aet = ae.decode('utf-8', 'replace')
            m2 = re.search(r'(?:Error|Fatal error): (.*)', aet)
            am = m2.group(1) if m2 else core.first_line(aet)
            kind, det, msg = 'as-rejects', norm_msg(re.sub(r"`[^']*'", '`_\'', am)), am
    elif kind == 'diag':
        m = re.search(r'\^ (.*)', e.decode('utf-8', 'replace'))
        det, msg = norm_msg(m.group(1)) if m else '', core.first_line(e.decode('utf-8', 'replace'))
    for q in (p, s):
        try:
            os.unlink(q)
        except OSError:
            pass
    return idx, out, kind, det, msg


def norm_msg(s):
    s = re.sub(r"'[^']*'", "'_'", s)
    s = re.sub(r'"[^"]*"', '"_"', s)
    s = re.sub(r'\d+', 'N', s)
    s = re.sub(r'/tmp/[\w./-]+|<path>', 'P', s)
    return s[:100]


def stack_key(errt):
    """For stack overflows: the recursion cycle as a sorted set of in-repo function names."""
    names = []
    for m in re.finditer(r'#\d+ 0x[0-9a-f]+ in (\w+) ([^\s]+)', errt):
        if os.path.basename(m.group(2).split(':')[0]).endswith('.c') and '/b-san/' in m.group(2):
            names.append(m.group(1))
        if len(names) >= 40:
            break
    # only the functions of the recursion cycle (>= 3 occurrences): the leaf frames in which the guard page happens to be hit are noise
    cyc = sorted(n for n in set(names) if names.count(n) >= 3)
    return '+'.join(cyc or sorted(set(names)))


def run_case(cc, path, extra, workdir, tag, timeout=10):
    out_s = os.path.join(workdir, tag + '.s')
    rc, o, e = core.sh(core.cc1_cmd(cc, path, out_s, extra), env=core.SAN_ENV, timeout=timeout, cwd=workdir)
    return rc, o, e, out_s


def line_count(path, cache={}):
    if path not in cache:
        try:
            with open(path, 'rb') as f:
                data = f.read()
            n = data.count(b'\n') + (0 if data.endswith(b'\n') or not data else 1)
            # CR-only line ends count as lines for the compiler
            n2 = data.replace(b'\r\n', b'\n').replace(b'\r', b'\n')
            n = max(n, n2.count(b'\n') + (0 if n2.endswith(b'\n') or not n2 else 1))
            cache[path] = max(n, 1)
        except OSError:
            cache[path] = None
    return cache[path]


def ends_with_splice(path):
    try:
        return open(path, 'rb').read().rstrip(b' \t').endswith(b'\\\n')
    except OSError:
        return False


def has_line_directive(path, cache={}):
    if path not in cache:
        try:
            data = open(path, 'rb').read()
            cache[path] = bool(re.search(rb'(^|[\n\r])[ \t]*#[ \t]*(line\b|[0-9])', data)) or b'line' in data and b'\\\n' in data
        except OSError:
            cache[path] = False
    return cache[path]


def classify(rc, o, e, main_path, extra=()):
    """-> (kind, key-detail, message)"""
    if rc == 'timeout':
        return 'hang', '', ''
    errt = e.decode('utf-8', 'replace')
    if 'Assertion' in errt and 'failed' in errt:
        m = re.search(r"(\w+): Assertion `([^']*)' failed", errt)
        first = core.first_line(errt)
        return 'abort', (m.group(1) + ':' + m.group(2)) if m else norm_msg(first), first
    if 'AddressSanitizer' in errt or 'runtime error:' in errt:
        m = re.search(r'ERROR: AddressSanitizer: ([\w-]+)', errt)
        kind = m.group(1) if m else 'ubsan'
        if kind == 'ubsan':
            m2 = re.search(r'runtime error: (.*)', errt)
            return 'sanitizer:ubsan', core.san_frames(errt) or norm_msg(m2.group(1) if m2 else ''), errt[:300]
        if kind == 'stack-overflow':
            return 'sanitizer:stack-overflow', stack_key(errt), ''
        if kind in ('requested', 'allocation-size-too-big', 'calloc-overflow', 'out-of-memory'):
            return 'sanitizer:alloc-' + kind, core.san_frames(errt), ''
        return 'sanitizer:' + kind, core.san_frames(errt), errt[:300]
    if isinstance(rc, int) and rc < 0:
        import signal
        return 'signal:' + signal.Signals(-rc).name, '', ''
    if rc == 0:
        return 'ok', '', ''
    first = core.first_line(errt)
    if 'internal error' in errt:
        return 'internal-error', norm_msg(first), first
    if rc != 1:
        return 'exit:%s' % rc, norm_msg(first), first
    if not errt.strip():
        return 'silent-failure', '', ''
    located = False
    lines = errt.split('\n')
    # command-line borne errors cannot name a line: accepted when the message names the
    # offending option argument (documented domain restriction, DESIGN 3/C13)
    for x in extra:
        arg = x[2:] if x[:2] in ('-D', '-U', '-I') else x
        if arg and lines[0].startswith(arg + ':') or lines[0].startswith('-include: ' + arg) or \
                lines[0].startswith('chibicc [') or lines[0].startswith('unknown argument'):
            return 'diag-cmdline', '', ''
    for ln in lines:
        m = core.DIAG_RE.match(ln)
        if not m:
            continue
        f, n = m.group(1), int(m.group(2))
        if f in ('<built-in>', '<command line>'):
            located = True
            continue
        lc = line_count(f if os.path.isabs(f) else os.path.join(os.path.dirname(main_path), f))
        if lc is None:
            continue
        if has_line_directive(f if os.path.isabs(f) else os.path.join(os.path.dirname(main_path), f)):
            # after #line the compiler reports presumed line numbers (as gcc does): no range check
            located = True
            continue
        if 1 <= n <= lc:
            located = True
        elif n == lc + 1 and (ln[m.end():].strip() == '' or ends_with_splice(f if os.path.isabs(f) else os.path.join(os.path.dirname(main_path), f))):
            # position of the end-of-file token: the (empty) line after the last newline; when the last line ends in
            # backslash-newline the text shown is the spliced logical line, the number still the physical one
            located = True
        else:
            return 'bad-line', 'line-out-of-range', '%s:%d but file has %d lines' % (os.path.basename(f), n, lc)
    if located:
        return 'diag', '', ''
    return 'unlocated', norm_msg(first), first


def shard(args):
    sid, seed, cc, plain, workdir, items, nmut = args
    rng = random.Random(seed * 7919 + sid)
    d = os.path.join(workdir, 'sh%d' % sid)
    os.makedirs(d, exist_ok=True)
    counts = {}
    anomalies = []
    diagsites = set()
    n = 0
    for (name, text, extra) in items:
        idents = list({t.text for t in pptok.lex(text) if t.kind == 'id'})[:200]
        variants = [text] + [mutate(text, rng, idents) for _ in range(nmut)]
        for vi, v in enumerate(variants):
            n += 1
            p = os.path.join(d, 'c%d.c' % n)
            with open(p, 'w', encoding='utf-8', errors='surrogateescape') as f:
                f.write(v)
            rc, o, e, out_s = run_case(cc, p, extra, d, 'c%d' % n)
            kind, det, msg = classify(rc, o, e, p, extra)
            if kind == 'hang':
                # re-run protocol (DESIGN 2.7): plain build, 30 s; then a stack sample of the san build
                rc2, o2, e2 = core.sh(core.cc1_cmd(plain, p, out_s, extra), timeout=30, cwd=d)
                if rc2 != 'timeout':
                    kind = 'timeout-not-reproduced'
                else:
                    env = dict(core.SAN_ENV)
                    env['ASAN_OPTIONS'] += ':handle_abort=1'
                    rc3, o3, e3 = core.sh(['timeout', '-s', 'ABRT', '5'] + core.cc1_cmd(cc, p, out_s, extra), env=env, timeout=60, cwd=d)
                    det = stack_key(e3.decode('utf-8', 'replace'))
            if kind == 'ok':
                arc, ao, ae = core.sh(['as', '-o', '/dev/null', out_s], timeout=60)
                if arc != 0 and re.search(r'\basm\b|__asm__', v):
                    arc = 0   # user-supplied inline assembly text is passed through verbatim: its validity is not the compiler's
                    counts['asm-text-not-judged'] = counts.get('asm-text-not-judged', 0) + 1
                if arc != 0:
                    aet = ae.decode('utf-8', 'replace')
                    m2 = re.search(r'(?:Error|Fatal error): (.*)', aet)
                    am = m2.group(1) if m2 else core.first_line(aet)
                    kind, det, msg = 'as-rejects', norm_msg(re.sub(r"`[^']*'", '`_\'', am)), am
            elif kind == 'diag':
                m = re.search(r'\^ (.*)', e.decode('utf-8', 'replace'))
                if m:
                    diagsites.add(norm_msg(m.group(1)))
            counts[kind] = counts.get(kind, 0) + 1
            if kind not in ('ok', 'diag', 'diag-cmdline'):
                anomalies.append((kind, det, msg, name, vi, v, extra))
            for q in (p, out_s):
                try:
                    os.unlink(q)
                except OSError:
                    pass
    return counts, anomalies, sorted(diagsites), n


def run(ctx):
    cc = ctx.build('san')
    plain = ctx.build('plain')
    snap = ctx.snapshot()
    work = ctx.tmpdir('c13')
    ctx.rule = ('one direct cc1 execution of the ASan+UBSan build per case; cases = corpus files, seeded invalid '
                'snippets, nesting cases, option-borne texts and 1-3-edit token/byte mutants of all of them; '
                'distinct = distinct diagnostic message templates reached + distinct outcome kinds')
    ctx.assumptions += ['ASan strict_memcmp=0 (equal() compares against shorter literals by design)',
                        'signed-overflow/shift UB in the folder on undefined inputs is not a C13 violation',
                        'the supported language is what the corpus and generators contain']
    inc_test = ['-I' + os.path.join(snap, 'test'), '-I' + os.path.join(snap, 'include')]
    corpus = []
    for f in sorted(os.listdir(os.path.join(snap, 'test'))):
        if f.endswith('.c'):
            corpus.append(('test/' + f, open(os.path.join(snap, 'test', f), encoding='utf-8', errors='surrogateescape').read(), inc_test))
    own = []
    for f in sorted(os.listdir(snap)):
        if f.endswith('.c'):
            own.append((f, open(os.path.join(snap, f), encoding='utf-8', errors='surrogateescape').read(), ['-I' + snap]))
    snippets = [('snippet%d' % i, s, []) for i, s in enumerate(snippet_list())]
    nest = [('nest%d' % i, s, []) for i, s in enumerate(nesting_cases())]
    optcases = []
    rng = ctx.rng
    for i in range(ctx.scale(60, 600)):
        body = ' '.join(pick(rng, ['x', 'y']) for _ in range(rng.randrange(0, 4)))
        optcases.append(('opt%d' % i, 'int X_used = 1;\n#ifdef X\nint y = X;\n#endif\n', ['-DX=' + body]))
    for b in ('//', '/*', '"', "'", '\\', '#', '##', '(', 'X', '', '=', '1=2', '\n', '\x80'):
        optcases.append(('optfix', 'int q;\nX\n', ['-DX=' + b]))
        optcases.append(('optfix2', 'int q;\n', ['-D' + b]))
        optcases.append(('optfix3', 'int q;\n', ['-U' + b]))
    optcases.append(('optinc', 'int q;\n', ['-include', '/nonexistent.h']))
    optcases.append(('optinc2', 'int q;\n', ['-include', 'stddef.h', '-include', 'stddef.h']))
    # -include of files without any token (empty, comment only, white space only), alone and between others
    for i, body in enumerate(['', '/* only a comment */\n', '\n\n   \n', '// x', '#if 0\nint z;\n#endif\n', '#define NOTHING\n']):
        ip = os.path.join(work, 'inc_empty%d.h' % i)
        open(ip, 'w').write(body)
        optcases.append(('optinc-empty%d' % i, 'int q = 1;\n', ['-include', ip]))
        optcases.append(('optinc-empty%db' % i, 'int q = 1;\n', ['-include', 'stddef.h', '-include', ip, '-include', ip]))
        optcases.append(('optinc-empty%dc' % i, '', ['-include', ip]))
    # table stress: many distinct names defined and undefined again, many live macros, objects, tags and labels in one scope
    stress = [('stress-define-undef', ''.join('#define SX_%d %d\n#undef SX_%d\n' % (i, i, i) for i in range(3000)) + '#ifdef SX_7\n#error no\n#endif\nint sx = 1;\n'),
              ('stress-live-macros', ''.join('#define SL_%d (SL_%d + 1)\n' % (i + 1, i) for i in range(1, 1500)) + '#define SL_1 1\nint sl = SL_40;\n'),
              ('stress-objects', ''.join('int so_%d = %d;\n' % (i, i) for i in range(3000)) + 'int sum(void) { return so_17 + so_2999; }\n'),
              ('stress-tags', ''.join('struct ST_%d { int a; struct ST_%d *p; };\n' % (i, max(i - 1, 0)) for i in range(1500)) + 'struct ST_1499 st;\n'),
              ('stress-locals', 'int f(void) {\n' + ''.join('  int l_%d = %d; { int l_%d = l_%d + 1; (void)l_%d; }\n' % (i, i, i + 5000, i, i + 5000) for i in range(1200)) + '  return l_3;\n}\n'),
              ('stress-labels', 'int f(int c) {\n' + ''.join('  L%d: if (c == %d) goto L%d;\n' % (i, i, (i * 7) % 800) for i in range(800)) + '  return c;\n}\n'),
              ('stress-enum', 'enum E {' + ', '.join('EC_%d' % i for i in range(4000)) + '};\nint e = EC_3999;\n'),
              ('stress-typedefs', ''.join('typedef int TD_%d;\n' % i for i in range(2000)) + 'TD_1999 t;\n')]
    for nm, text in stress:
        optcases.append((nm, text, []))

    # system headers: real-world declarations (attributes, inline functions, bit-fields, unions, variadics, redeclared builtins)
    syscases = []
    for h in SYSHEADERS:
        for fm in ('', '#define _GNU_SOURCE\n', '#define _POSIX_C_SOURCE 200809L\n', '#define _DEFAULT_SOURCE\n#define _FILE_OFFSET_BITS 64\n'):
            syscases.append(('sys:%s' % h, '%s#include <%s>\nint main(void) { return 0; }\n' % (fm, h), []))

    # shards: (items, nmut)
    shards = []
    sid = 0
    mt = ctx.scale(90, 1500)     # mutants per test file
    mo = ctx.scale(8, 120)       # mutants per own source
    ms = ctx.scale(90, 1500)     # mutants per snippet
    for it in corpus:
        per = max(1, mt // 6)
        for k in range(0, mt, per):
            shards.append((sid, ctx.seed, cc, plain, work, [it] if k == 0 else [(it[0], it[1], it[2])], per)); sid += 1
    for it in own:
        shards.append((sid, ctx.seed, cc, plain, work, [it], mo)); sid += 1
    chunk = 12
    for k in range(0, len(snippets), chunk):
        shards.append((sid, ctx.seed, cc, plain, work, snippets[k:k + chunk], ms)); sid += 1
    for k in range(0, len(nest), 6):
        shards.append((sid, ctx.seed, cc, plain, work, nest[k:k + 6], ctx.scale(3, 30))); sid += 1
    for k in range(0, len(optcases), 20):
        shards.append((sid, ctx.seed, cc, plain, work, optcases[k:k + 20], ctx.scale(1, 10))); sid += 1
    for k in range(0, len(syscases), 8):
        shards.append((sid, ctx.seed, cc, plain, work, syscases[k:k + 8], ctx.scale(1, 12))); sid += 1
    rng.shuffle(shards)
    results = core.pmap(shard, shards)
    sites = set()
    for counts, anomalies, dsites, n in results:
        ctx.evaluations += n
        ctx.count('executions', n)
        for k, v in counts.items():
            ctx.count(k, v)
            ctx.saw('outcome:' + k)
        sites.update(dsites)
        for (kind, det, msg, name, vi, text, extra) in anomalies:
            if kind == 'timeout-not-reproduced':
                continue
            key = 'C13|%s|%s' % (kind, det)
            base = 'valid corpus file' if vi == 0 else 'mutant'
            ctx.violation(key, '%s (%s of %s) %s' % (kind, base, name, msg[:200]),
                          files={'input.c': text.encode('utf-8', 'surrogateescape'), 'extra_args.json': json.dumps(extra)},
                          script='ASAN_OPTIONS=detect_leaks=0:strict_memcmp=0 ${CHIBICC_SAN:-$CHIBICC} -cc1 -cc1-input input.c -cc1-output /tmp/replay_c13.s input.c '
                                 + ' '.join("'%s'" % x.replace("'", "'\\''") for x in extra if not x.startswith('-I')) +
                                 '; rc=$?; echo "exit status $rc"; if [ $rc -eq 0 ]; then as -o /dev/null /tmp/replay_c13.s || exit 1; exit 0; fi; [ $rc -eq 1 ] && exit 0; exit 1')
    # constructed valid programs: accepted by gcc and clang => must be accepted, and the assembler must take the output
    vwork = os.path.join(work, 'valid')
    os.makedirs(vwork, exist_ok=True)
    vcases = valid_cases(rng, ctx.scale(2800, 16000))
    seen_v = set()
    vjobs = []
    for name, text in vcases:
        if text in seen_v:
            continue
        seen_v.add(text)
        vjobs.append((len(vjobs), cc, vwork, name, text))
    hang_confirmed = {}
    for idx, refs, kind, det, msg in core.pmap(run_valid, vjobs, chunksize=8):
        name, text = vjobs[idx][3], vjobs[idx][4]
        ctx.evaluations += 1
        if refs['gcc'] != 0 or refs['clang'] != 0:
            ctx.count('valid_discarded_reference_rejects')
            continue
        ctx.count('valid_programs_compared')
        ctx.saw('valid:' + name + ':' + kind)
        if kind == 'ok':
            continue
        if kind == 'hang':
            # re-run protocol: the plain build gets 60 s; after two confirmed hangs of one kind the others are not re-run (each costs a minute)
            if hang_confirmed.get(name, 0) >= 2:
                ctx.count('hangs_not_rerun')
                continue
            open(os.path.join(vwork, 'again.c'), 'w').write(text)
            rc2, o2, e2 = core.sh(core.cc1_cmd(plain, os.path.join(vwork, 'again.c'), os.path.join(vwork, 'again.s'), []), timeout=60, cwd=vwork)
            if rc2 != 'timeout':
                ctx.count('timeout-not-reproduced')
                continue
            hang_confirmed[name] = hang_confirmed.get(name, 0) + 1
            det = name
        key = 'C13|%s|%s' % ('rejects-valid' if kind == 'diag' else kind, det)
        ctx.violation(key, '%s: gcc and clang accept, chibicc: %s %s' % (name, kind, msg[:200]), files={'input.c': text},
                      script='ASAN_OPTIONS=detect_leaks=0:strict_memcmp=0 timeout 60 ${CHIBICC_SAN:-$CHIBICC} -cc1 -cc1-input input.c -cc1-output /tmp/replay_c13v.s input.c && as -o /dev/null /tmp/replay_c13v.s && exit 0; exit 1')
    # the same answer must reach the user through the driver: when cc1 ends abnormally (signal, abort) or with a diagnostic, `chibicc -c`
    # exits non-zero and leaves no object file.  Inputs: one that kills cc1 (the open stack-exhaustion finding, and deep nesting under a
    # small stack limit) and a few that are diagnosed.
    dwork = os.path.join(work, 'driver')
    os.makedirs(dwork, exist_ok=True)
    dcases = [('cc1-killed-by-signal', 'int f(void) { int a[] = { [100000] = 1 }; return a[0]; }\n', None),
              ('cc1-killed-by-signal-small-stack', 'int x = ' + '(' * 30000 + '1' + ')' * 30000 + ';\n', 256),
              ('cc1-diagnostic', 'int f(void) { return 1 +; }\n', None), ('cc1-diagnostic-codegen', 'void f(void) { 1 = 2; }\n', None),
              ('cc1-ok', 'int f(void) { return 1; }\n', None)]
    for (how, text, stack_kb) in dcases:
        src = os.path.join(dwork, how + '.c')
        obj = os.path.join(dwork, how + '.o')
        open(src, 'w').write(text)
        pre = 'ulimit -s %d; ' % stack_kb if stack_kb else ''
        rc1, o1, e1 = core.sh(['bash', '-c', pre + 'exec "$0" -cc1 -cc1-input "$1" -cc1-output "$2" "$1"', plain, src, os.path.join(dwork, how + '.s')], timeout=120)
        rc2, o2, e2 = core.sh(['bash', '-c', pre + 'exec "$0" -c -o "$2" "$1"', plain, src, obj], timeout=120)
        ctx.evaluations += 1
        ctx.count('driver_runs')
        ctx.saw('driver:' + how)
        left = os.path.exists(obj)
        if rc1 == 0:
            if rc2 != 0 or not left:
                ctx.violation('C13|driver|%s|failed-although-cc1-succeeds' % how, 'driver exit %s, object %s' % (rc2, 'present' if left else 'missing'), files={'input.c': text[:2000]})
        else:
            ctx.count('driver_runs_with_failing_cc1')
            if rc2 == 0 or left:
                ctx.violation('C13|driver|%s|cc1-failure-not-propagated' % how, 'cc1 alone ends with %s, but `chibicc -c` exits %s and %s an object file' % (rc1, rc2, 'leaves' if left else 'leaves no'),
                              files={'input.c': text[:2000]}, script='$CHIBICC -c -o out.o input.c; rc=$?; [ $rc -ne 0 ] && [ ! -e out.o ] && exit 0; exit 1')
        for f in (obj, os.path.join(dwork, how + '.s')):
            if os.path.exists(f):
                os.unlink(f)
    for s in sites:
        ctx.saw('diag:' + s)
    ctx.extra['distinct_diagnostic_templates'] = len(sites)
    ctx.sample({'case': 'snippet', 'text': snippets[3][1]})
    ctx.sample({'case': 'mutant-of', 'file': corpus[0][0], 'text': mutate(corpus[0][1], random.Random(1), ['x'])[:300]})
    ctx.sample({'diagnostic_templates_seen': sorted(sites)[:40]})
