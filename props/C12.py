"""C12 - self-hosting fixpoint and determinism.

Stage 1 (built by gcc), stage 2 (stage 1 compiling the sources) and stage 3 (stage 2 compiling them) are run on the same
corpus x option sets through identical paths; output bytes, stderr and exit status must be identical, and stage-3 objects
must equal stage-2 objects.  Corpus: the compiler's own sources, the bundled tests, programs from the other properties'
generators and invalid mutants (diagnostics must match too).  Determinism: one binary re-run under disabled ASLR, padded
environment and a shifted clock must reproduce its output (inputs using __DATE__/__TIME__/__TIMESTAMP__ excluded).
A sample of stage-2 runs goes through valgrind memcheck."""
import os, re, random, shutil, hashlib, zlib
from lib import core, pptok

LEVEL = 'exploration'
MIN_COUNTS = {'cases_compared': (2400, 60000), 'determinism_runs': (100, 2000), 'memcheck_runs': (2, 30)}

# the stages run at different instants: __DATE__/__TIME__ are pinned by a preloaded time() so that they cannot differ
FIXED_CLOCK = {'LD_PRELOAD': os.path.join(core.VERIF, 'build', 'faketime.so'), 'VERIF_TIME_FIXED': '1790000000'}

OPTSETS = [['-S'], ['-E'], ['-c'], ['-S', '-fPIC'], ['-S', '-fno-common'], ['-S', '-DFOO=1', '-UBAR', '-DBAR=2'], ['-M'], ['-c', '-fPIC'],
           ['-c', '-MD', '-MF', 'dep.d'], ['-c', '-MD'], ['-S', '-MMD', '-MP', '-MF', 'dep.d'], ['-M', '-MT', 'tgt.o', '-MP'], ['-E', '-MD', '-MF', 'dep.d']]


HOSTILE_LITS = ['0.0/0.0', '1e30', '-1e30', '1e19', '-0.5', '1.0/0.0', '-1.0/0.0', '3.7', '0x7fffffffffffffff', '(-0x7fffffffffffffffL-1)', '-1', '63', '64', '65', '31', '32',
                '1e300*1e300', '1e-320', '0x1p63', '0x1p64', '-0x1p63', '4294967296.0', '2147483648.0f', '0x1p31', '1e10f', '18446744073709551615u', '0x80000000', '2147483647',
                '0', '1', '0.1', '0.1f', '0.1L', '1e4000L', '1e-4940L', '255', '256', '-129', '65535', '1.5', '0x1.fffffffffffffp1023', "'a'", '(char)200', '(_Bool)2']
HOSTILE_TYPES = ['char', 'unsigned char', 'short', 'unsigned short', 'int', 'unsigned', 'long', 'unsigned long', '_Bool', 'float', 'double', 'long double']


# constants whose folded value depends on the FPU rounding state of the *compiler process*: they must not be affected by what was folded before them
FP_TRAILER = 'float tr1 = 0.1; long double tr2 = 1.0L / 3; double tr3 = 0.7; float tr4 = 16777217.0; double tr5 = 1e22 / 3; long double tr6 = 0.1L * 3; float tr7 = 1.0f / 3.0f; ' \
             'long double tr8 = 5.0L - 2.0L; double tr9 = 1.0L - 0.25; long double tr10 = 7.0L / 2.0L - 10; int tr11 = 2.5L > 1.5L; int tr12 = (1.0L - 3) < 0; long double tr13 = -(2.0L - 5);'


def hostile_consts(rng):
    """File-scope initializers whose constant expressions include conversions and operations that are undefined or
    implementation-defined *for the program*: the compiler's answer (bytes or diagnostic) must still not depend on how the compiler itself was compiled."""
    def e(d):
        if d <= 0 or rng.random() < 0.3:
            return rng.choice(HOSTILE_LITS)
        r = rng.random()
        if r < 0.3:
            return '(%s)(%s)' % (rng.choice(HOSTILE_TYPES), e(d - 1))
        if r < 0.4:
            return '%s(%s)' % (rng.choice(['-', '~', '!', '+']), e(d - 1))
        if r < 0.5:
            return '((%s) ? (%s) : (%s))' % (e(d - 1), e(d - 1), e(d - 1))
        return '((%s) %s (%s))' % (e(d - 1), rng.choice(['+', '-', '*', '/', '%', '<<', '>>', '<', '<=', '==', '!=', '&', '|', '^', '&&', '||']), e(d - 1))
    lines = []
    for i in range(rng.randrange(1, 5)):
        t = rng.choice(HOSTILE_TYPES)
        form = rng.random()
        if form < 0.6:
            lines.append('%s h%d = %s;' % (t, i, e(rng.randrange(1, 4))))
        elif form < 0.8:
            lines.append('%s ha%d[3] = {%s, %s};' % (t, i, e(2), e(2)))
        else:
            lines.append('struct { %s a; int b : 7; %s c; } hs%d = {%s, %s, %s};' % (t, rng.choice(HOSTILE_TYPES), i, e(2), e(1), e(2)))
    lines.append(FP_TRAILER)
    lines.append('int f(void) { switch (h0 != 0) { case (int)(%s): return 1; } return sizeof(char [1 + ((%s) != 0)]); }' % (rng.choice(HOSTILE_LITS), rng.choice(HOSTILE_LITS)))
    return '\n'.join(lines) + '\n'


def run_stages(a):
    (idx, stages, path, opts, extra, workdir) = a
    res = []
    jd = os.path.join(workdir, 'j%d' % idx)
    os.makedirs(jd)
    os.symlink(os.path.join(stages[0], 'include'), os.path.join(jd, 'include'))
    for n, sdir in enumerate(stages):
        # same physical cwd and argv[0] for every stage: as records getcwd() in DW_AT_comp_dir and chibicc derives its include path from argv[0]
        if os.path.exists(os.path.join(jd, 'chibicc')):
            os.unlink(os.path.join(jd, 'chibicc'))
        os.link(os.path.join(sdir, 'chibicc'), os.path.join(jd, 'chibicc'))
        out = os.path.join(jd, 'out')
        rc, o, e = core.sh(['./chibicc'] + opts + extra + ['-o', out, path], cwd=jd, timeout=300, env=FIXED_CLOCK)
        data = b''
        if os.path.exists(out):
            data = open(out, 'rb').read()
            os.unlink(out)
        # dependency files written on the side (-MD / -MMD / -MF) belong to the output
        for side in ('dep.d', 'out.d'):
            sp = os.path.join(jd, side)
            if os.path.exists(sp):
                data += b'\n--' + side.encode() + b'--\n' + open(sp, 'rb').read()
                os.unlink(sp)
        res.append((rc, hashlib.sha1(o).hexdigest(), e, hashlib.sha1(data).hexdigest(), len(data), data[:0]))
    shutil.rmtree(jd, ignore_errors=True)
    return idx, res


def run_det(a):
    (idx, sdir, path, opts, extra, workdir, mode) = a
    out = os.path.join(workdir, 'd%d_%s' % (idx, mode))
    if zlib.crc32(path.encode()) % 3 == 0:
        opts = ['-c', '-MD']          # the dependency file is written next to the output: d<idx>_<mode>.d
    cmd = ['./chibicc'] + opts + extra + ['-o', out, path]
    env = None
    if mode == 'noaslr':
        cmd = ['setarch', 'x86_64', '-R'] + cmd
    elif mode == 'envpad':
        env = {'VERIF_PAD': 'x' * 4096, 'ANOTHER_PAD': 'y' * 777}
    elif mode == 'clock':
        env = {'LD_PRELOAD': os.path.join(core.VERIF, 'build', 'faketime.so'), 'VERIF_TIME_OFFSET': str(400 * 86400 + 12345)}
    rc, o, e = core.sh(cmd, cwd=sdir, env=env, timeout=300)
    data = open(out, 'rb').read() if os.path.exists(out) else b''
    if os.path.exists(out):
        os.unlink(out)
    if os.path.exists(out + '.d'):
        # the rule names the output file, whose name carries the mode: normalise that one word
        data += open(out + '.d', 'rb').read().replace(os.path.basename(out).encode(), b'OUT')
        os.unlink(out + '.d')
    return idx, mode, (rc, hashlib.sha1(o + e + data).hexdigest())


def run_memcheck(a):
    (sdir, path, extra, workdir, i) = a
    out = os.path.join(workdir, 'mc%d.s' % i)
    rc, o, e = core.sh(['valgrind', '-q', '--error-exitcode=9', './chibicc', '-cc1', '-cc1-input', path, '-cc1-output', out, path] + extra, cwd=sdir, timeout=900)
    return path, rc, e.decode('utf-8', 'replace')[-600:]


def run(ctx):
    work = ctx.tmpdir('c12')
    snap = ctx.snapshot()
    rng = ctx.rng
    ctx.rule = ('case = (input file, option set) run by stage 1, 2 and 3 through identical relative paths; exit status, stdout, stderr and output bytes compared; '
                'determinism case = stage-2 run repeated without ASLR / with padded environment / with a shifted clock; distinct = distinct (input, option set) pairs')
    ctx.assumptions += ['stage binaries are invoked as ./chibicc with cwd = their own directory (otherwise .file records differ by the argv[0]-relative include path)',
                        'only divergences on the corpus are visible']
    s1 = os.path.join(work, 's1')
    os.makedirs(s1)
    shutil.copy2(ctx.build('nohook'), os.path.join(s1, 'chibicc'))
    shutil.copytree(os.path.join(snap, 'include'), os.path.join(s1, 'include'))
    s2 = os.path.dirname(ctx.stage(2))
    s3 = os.path.dirname(ctx.stage(3))
    stages = [s1, s2, s3]
    # stage-3 objects must equal stage-2 objects: stage(3) was built by stage 2, build "stage 4" objects with stage 3 and compare with s3 objects
    srcs = sorted(f for f in os.listdir(snap) if f.endswith('.c'))
    for idx, res in core.pmap(run_stages, [(10**6 + i, [s2, s3], os.path.join(snap, f), ['-c'], ['-I' + snap], work) for i, f in enumerate(srcs)]):
        f = srcs[idx - 10**6]
        ctx.evaluations += 1
        ctx.saw('selfbuild:' + f)
        if res[0][0] != 0 or res[0] != res[1]:
            ctx.violation('C12|s2≠s3|-c|own-source', 'object code of %s differs between the stage-2 and the stage-3 compiler' % f,
                          script='echo "build stage 2 and 3 (see props/C12.py) and compare objects of %s"; exit 1' % f)
    # corpus
    corpus = []
    for f in srcs:
        corpus.append((os.path.join(snap, f), ['-I' + snap], 'own'))
    tests = sorted(f for f in os.listdir(os.path.join(snap, 'test')) if f.endswith('.c'))
    for f in tests:
        corpus.append((os.path.join(snap, 'test', f), ['-I' + os.path.join(snap, 'test'), '-I' + snap], 'test'))
    gen = os.path.join(work, 'gen')
    os.makedirs(gen)
    from props import C03, C09, C10, C13
    inc_rt = ['-I' + os.path.join(core.VERIF, 'rt')]
    ng = ctx.scale(80, 4000)
    for k in range(ng):
        fs = [C03.control_program(rng, k * 4 + j)[0] for j in range(4)]
        src = C03.PRELUDE + '\n'.join(fs) + '\nint main(void) { %s return 0; }\n' % ' '.join('prog%d();' % (k * 4 + j) for j in range(4))
        p = os.path.join(gen, 'cf%d.c' % k)
        open(p, 'w').write(src)
        corpus.append((p, inc_rt, 'gen-control'))
        p = os.path.join(gen, 'sc%d.c' % k)
        open(p, 'w').write(C03.scope_program(rng, k)[0])
        corpus.append((p, inc_rt, 'gen-scope'))
        p = os.path.join(gen, 'mac%d.c' % k)
        open(p, 'w').write(C09.gen_case(rng, set())[0])
        corpus.append((p, [], 'gen-macro'))
        p = os.path.join(gen, 'cond%d.c' % k)
        open(p, 'w').write(C10.cond_case(rng)[0])
        corpus.append((p, [], 'gen-cond'))
    for k in range(ctx.scale(300, 12000)):
        p = os.path.join(gen, 'hc%d.c' % k)
        open(p, 'w').write(hostile_consts(rng))
        corpus.append((p, [], 'gen-hostile-const'))
    # full grid: every hostile literal converted to every type, and every pair under the operators with undefined corners
    grid = ['%s hgNN = (%s)(%s);' % (t, t, l) for t in HOSTILE_TYPES for l in HOSTILE_LITS]
    ints = ['0x7fffffffffffffff', '(-0x7fffffffffffffffL-1)', '-1', '0', '1', '63', '64', '65', '-2', '2147483647', '(-2147483647-1)', '31', '32', '33', '18446744073709551615u',
            '0x8000000000000000', '9223372036854775809u', '4294967295u', '0x80000000']
    grid += ['long hgNN = (%s) %s (%s);' % (a, op, b) for op in ('/', '%', '<<', '>>', '*', '+', '-', '<', '<=', '>', '>=', '==', '!=', '&', '|', '^') for a in ints for b in ints]
    # the same comparisons decide conditional inclusion
    cmpi = ['0x8000000000000000', '0xFFFFFFFFFFFFFFFF', '1', '0', '-1', '0x7fffffffffffffff', '4294967296', '2147483648u', '-2147483648']
    ppl = ['#if (%s) %s (%s)\nint ppNN = 1;\n#else\nint ppNN = 2;\n#endif' % (a, op, b) for op in ('<', '<=', '>', '>=', '==', '!=', '/', '%', '>>') for a in cmpi for b in cmpi
           if not (op in ('/', '%') and b == '0')]
    for k in range(0, len(ppl), 12):
        p = os.path.join(gen, 'hpp%d.c' % k)
        open(p, 'w').write('\n'.join(g.replace('ppNN', 'pp%d' % (k + j)) for j, g in enumerate(ppl[k:k + 12])) + '\n')
        corpus.append((p, [], 'gen-hostile-const'))
    for k in range(0, len(grid), 8):
        p = os.path.join(gen, 'hgrid%d.c' % k)
        open(p, 'w').write('\n'.join(g.replace('hgNN', 'hg%d' % (k + j)) for j, g in enumerate(grid[k:k + 8])) + '\n' + FP_TRAILER + '\n')
        corpus.append((p, [], 'gen-hostile-const'))
    # the hand-written idiom corpus (one file per ~20 idioms would hide which one differs: one file each, -S only)
    idioms = [b.strip('\n') for b in open(os.path.join(core.VERIF, 'rt', 'valid_idioms.txt')).read().split('\n----\n') if b.strip()]
    step = 1 if ctx.tier == 'thorough' else 3
    for k in range(ctx.seed % step, len(idioms), step):
        p = os.path.join(gen, 'idiom%d.c' % k)
        open(p, 'w').write(idioms[k] + '\n')
        corpus.append((p, [], 'gen-idiom'))
    for f in ('idioms_exec.c', 'idioms_exec2.c', 'idioms_exec3.c', 'idioms_exec4.c', 'idioms_exec5.c'):
        corpus.append((os.path.join(core.VERIF, 'rt', f), [], 'gen-idiom'))
    # two erroneous operands in one constant expression: which diagnostic comes first must not depend on the host compiler's
    # evaluation order (every binary operator x ordered pair of distinct invalid operands x context)
    bad_ops = ['nonconst_a', 'nonconst_b', 'fn()', '1/0', '2%0', '*ptr', '(nonconst_a = 1)', 'nonconst_a++', '1.5', '"s"', '&nonconst_a', '(char)nonconst_b']
    ctxs = ['int r = %s;', 'enum { R = %s };', 'int r[%s];', 'int sw(int c) { switch (c) { case %s: return 1; } return 0; }', '_Static_assert(%s, "m");', 'struct { int b : %s; } r;',
            '_Alignas(%s) int r;', '#if %s\n#endif']
    inv = []
    for op in ('+', '-', '*', '/', '%', '&', '|', '^', '<<', '>>', '==', '!=', '<', '<=', '&&', '||', '?:', ','):
        for a in bad_ops:
            for b in bad_ops:
                if a != b:
                    e = '(%s) ? (%s) : (%s)' % (a, b, a) if op == '?:' else '(%s) %s (%s)' % (a, op, b)
                    inv.append(e)
    sel = inv if ctx.tier == 'thorough' else rng.sample(inv, 260)
    for k, e in enumerate(sel):
        p = os.path.join(gen, 'inv%d.c' % k)
        cx = ctxs[k % len(ctxs)]
        e2 = e.replace('nonconst_a', 'A').replace('nonconst_b', 'B').replace('fn()', 'C').replace('*ptr', 'D').replace('"s"', '1') if cx.startswith('#if') else e
        open(p, 'w').write('int nonconst_a, nonconst_b, *ptr; int fn(void);\n' + cx % e2 + '\n')
        corpus.append((p, [], 'gen-invalid-const'))
    # operand-type grid: every operator applied to every kind of operand (void call, struct, pointer, function, array, floating ...): mostly
    # invalid programs whose diagnostics - or acceptance - must not depend on the host compiler (e.g. on the signedness of its enums)
    kinds = ['vf()', 'sv', 'iv', 'pv', 'dv', 'av', 'vf', '(void)0', '*pv', 'sv.a', '&sv', '"str"', 'ev', 'bv', 'fp']
    tg = []
    for op in ('+', '-', '*', '/', '%', '&', '|', '^', '<<', '>>', '==', '!=', '<', '<=', '&&', '||', '=', '+=', ','):
        for a in kinds:
            for b in kinds:
                tg.append('(%s) %s (%s);' % (a, op, b))
    for a in kinds:
        tg += ['-(%s);' % a, '~(%s);' % a, '!(%s);' % a, '*(%s);' % a, '&(%s);' % a, '(%s)++;' % a, '--(%s);' % a, 'if (%s) ;' % a, 'while (%s) break;' % a, '(%s) ? 1 : 2;' % a,
               'iv ? (%s) : (%s);' % (a, a), '(int)(%s);' % a, '(double)(%s);' % a, 'iv = (%s);' % a, 'return (%s);' % a, 'switch (%s) { case 1: ; }' % a, 'sizeof(%s);' % a,
               '(%s)(1);' % a, '(%s)[1];' % a, '(%s).a;' % a, '(%s)->a;' % a, '_Alignof(%s);' % a, 'iv = _Generic((%s), int: 1, default: 2);' % a]
    for k, e in enumerate(tg if ctx.tier == 'thorough' else rng.sample(tg, 300)):
        p = os.path.join(gen, 'tg%d.c' % k)
        open(p, 'w').write('void vf(void); struct S { int a; } sv; int iv; int *pv; double dv; int av[3]; enum E { E1 } ev; _Bool bv; int (*fp)(int);\nint t(void) { %s return 0; }\n' % e)
        corpus.append((p, [], 'gen-type-grid'))
    # literal-heavy files (wide / UTF-16 / UTF-32 buffers are allocated per literal)
    from props import C11
    lits = C11.string_cases(rng, 2)
    for k in range(ctx.scale(6, 60)):
        p = os.path.join(gen, 'lit%d.c' % k)
        sel = rng.sample(lits, min(len(lits), 40))
        open(p, 'w').write('\n'.join('const %s lt%d_%d[] = %s;' % (el, k, j, text) for j, (text, el, key) in enumerate(sel)) + '\n')
        corpus.append((p, [], 'gen-literals'))
    nm = ctx.scale(400, 20000)
    tsrc = [(f, open(os.path.join(snap, 'test', f), errors='surrogateescape').read()) for f in tests]
    for k in range(nm):
        f, text = rng.choice(tsrc)
        idents = ['x', 'y', 'main', 'int']
        p = os.path.join(gen, 'mut%d.c' % k)
        open(p, 'w', errors='surrogateescape').write(C13.mutate(text, rng, idents))
        corpus.append((p, ['-I' + os.path.join(snap, 'test'), '-I' + snap], 'mutant'))
    jobs = []
    meta = {}
    for (path, extra, kind) in corpus:
        if kind in ('gen-macro', 'gen-cond'):
            osets = [['-E']]
        elif kind in ('own', 'test'):
            osets = OPTSETS if ctx.tier == 'thorough' else [OPTSETS[0], OPTSETS[2], rng.choice(OPTSETS[1:])]
        elif kind in ('mutant', 'gen-hostile-const', 'gen-invalid-const', 'gen-type-grid', 'gen-literals', 'gen-idiom'):
            osets = [['-S']]
        else:
            osets = [['-S'], rng.choice([['-c'], ['-E'], ['-S', '-fPIC']])]
        for opts in osets:
            i = len(jobs)
            meta[i] = (path, opts, kind)
            jobs.append((i, stages, path, opts, extra, work))
    for idx, res in core.pmap(run_stages, jobs, chunksize=4):
        path, opts, kind = meta[idx]
        ctx.evaluations += 1
        ctx.count('cases_compared')
        ctx.saw('%s|%s|%s' % (kind, ' '.join(opts), os.path.basename(path) if kind in ('own', 'test') else kind))
        name = os.path.basename(path)
        for (a, b, tag) in ((0, 1, 's1≠s2'), (1, 2, 's2≠s3')):
            ra, rb = res[a], res[b]
            if ra[0] != rb[0] or ra[1] != rb[1] or ra[2] != rb[2] or ra[3] != rb[3]:
                what = 'exit-status' if ra[0] != rb[0] else 'stderr' if ra[2] != rb[2] else 'stdout' if ra[1] != rb[1] else 'output-bytes'
                files = {}
                if kind not in ('own', 'test'):
                    try:
                        files[name] = open(path, 'rb').read()
                    except OSError:
                        pass
                ctx.violation('C12|%s|%s|%s|%s' % (tag, ' '.join(opts), kind, what), '%s with %s: stage %d gives rc=%s, stage %d gives rc=%s (%s differs); stderr %r vs %r' %
                              (name, ' '.join(opts), a + 1, ra[0], b + 1, rb[0], what, ra[2][:100], rb[2][:100]), files=files,
                              script='echo "build the stages (see props/C12.py), run them on %s with %s and compare"; exit 1' % (name, ' '.join(opts)))
                break
    # determinism of one binary
    dj = []
    dmeta = {}
    cand = [(p, e, k) for (p, e, k) in corpus if k in ('own', 'test', 'gen-control', 'gen-literals')]
    sel = cand if ctx.tier == 'thorough' else rng.sample(cand, min(len(cand), 40)) + [c for c in cand if c[2] == 'gen-literals']
    for (path, extra, kind) in sel:
        try:
            txt = open(path, errors='replace').read()
        except OSError:
            continue
        if re.search(r'__DATE__|__TIME__|__TIMESTAMP__', txt):
            continue
        for mode in ('plain', 'noaslr', 'envpad', 'clock'):
            i = len(dj)
            dmeta[i] = (path, mode)
            dj.append((i, s2, path, ['-S'], extra, work, mode))
    base = {}
    for idx, mode, r in sorted(core.pmap(run_det, dj, chunksize=4)):
        path, _ = dmeta[idx]
        ctx.evaluations += 1
        ctx.count('determinism_runs')
        if mode == 'plain':
            base[path] = r
        elif path in base and r != base[path]:
            ctx.violation('C12|nondeterministic|%s' % mode, '%s: output of the stage-2 compiler changes under %s' % (os.path.basename(path), mode),
                          script='echo "run stage 2 twice on %s, once with %s"; exit 1' % (os.path.basename(path), mode))
    # memcheck on stage-2 runs
    mc = [(s2, os.path.join(snap, f), ['-I' + snap], work, i) for i, f in enumerate(['strings.c', 'hashmap.c', 'type.c'] if ctx.quick() else srcs)]
    mc += [(s2, os.path.join(snap, 'test', f), ['-I' + os.path.join(snap, 'test'), '-I' + snap], work, 100 + i) for i, f in enumerate(tests[:ctx.scale(3, 30)])]
    mc += [(s2, p, [], work, 200 + i) for i, (p, e, k) in enumerate([c for c in corpus if c[2] == 'gen-literals'][:ctx.scale(3, 20)])]
    for path, rc, et in core.pmap(run_memcheck, mc):
        ctx.evaluations += 1
        ctx.count('memcheck_runs')
        ctx.saw('memcheck:' + os.path.basename(path))
        if rc == 9 or 'Invalid read' in et or 'Invalid write' in et or 'uninitialised' in et:
            fr = re.findall(r'(?:at|by) 0x[0-9A-F]+: (\w+) \((\w+\.c):\d+\)', et)
            key = '<'.join(f for f, c in fr[:3])
            ctx.violation('C12|memcheck|%s' % key, 'valgrind memcheck on the stage-2 compiler compiling %s: %s' % (os.path.basename(path), et[:300]),
                          script='echo "valgrind the stage-2 compiler on %s"; exit 1' % os.path.basename(path))
        elif rc not in (0, 1):
            ctx.note_inconclusive('memcheck run on %s ended with %s' % (os.path.basename(path), rc))
    ctx.sample({'case': 'parse.c with -S: stage1 == stage2 == stage3 output bytes, stderr, exit status'})
    ctx.sample({'option_sets': OPTSETS})
