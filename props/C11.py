"""C11 - literals have the C11 value, type and encoding.

 (1) integer literals: bases {2,8,10,16} x every suffix spelling x magnitudes around every typing threshold: value, size,
     signedness vs the Python C11 ladder == gcc == clang;
 (2) character constants and string literals: simple/octal/hex/universal escapes, prefixes none/u8/u/U/L, adjacent-literal
     concatenation of all prefix pairs: values, element type and bytes vs gcc == clang;
 (3) all 1 112 064 Unicode scalar values through unicode.c in an ASan harness (UTF-8 codec round trip against a reference
     encoder, identifier classes against C11 Annex D typed in from the standard) - exhaustive;
 (4) Unicode through the real compiler: U"", u"", u8"", L"" array initialisers and character constants for code points at every
     plane / surrogate / encoding-length boundary +-2 and random points (thorough: all of them in chunks), identifiers
     containing code points of each class;
 (5) the same literal programs with BOM, CR-LF, lone CR and backslash-newlines inside tokens."""
import os, re, random
from lib import core, cint

LEVEL = 'exploration'
MIN_COUNTS = {'observations': (15000, 400000), 'codepoints_exhaustive': (1112064, 1112064)}


def int_literal_cases():
    sufs = ['', 'u', 'U', 'l', 'L', 'll', 'LL', 'ul', 'uL', 'Ul', 'UL', 'lu', 'LU', 'ull', 'uLL', 'Ull', 'ULL', 'llu', 'LLU', 'llU', 'LLu', 'lU', 'Lu']
    mags = set()
    for k in (0, 1, 7, 8, 15, 16, 31, 32, 33, 62, 63, 64):
        for d in (-1, 0, 1):
            v = (1 << k) + d
            if 0 <= v < (1 << 64):
                mags.add(v)
    mags |= {0, 5, 100, 255, 65535, 2147483647, 4294967295, 9223372036854775807, 18446744073709551615}
    out = []
    for base in ('d', 'x', 'X', 'o', 'b'):
        for suf in sufs:
            for v in sorted(mags):
                text = {'d': '%d' % v, 'x': '0x%x' % v, 'X': '0X%X' % v, 'o': ('0%o' % v) if v else '0', 'b': '0b' + bin(v)[2:]}[base]
                u = 'u' in suf.lower()
                l = 'l' in suf.lower()
                if base == 'd':
                    cands = ['u64'] if (u and l) else ['i64'] if l else ['u32', 'u64'] if u else ['i32', 'i64']
                else:
                    cands = ['u64'] if (u and l) else ['i64', 'u64'] if l else ['u32', 'u64'] if u else ['i32', 'u32', 'i64', 'u64']
                ty = next((c for c in cands if cint.inrange(c, v)), None)
                if ty is None:
                    continue       # no type can represent it: constraint violation / extension
                out.append((text + suf, ty, v, 'C11|int|%s|%s|%s' % ({'d': 10, 'x': 16, 'X': 16, 'o': 8, 'b': 2}[base], suf.lower() or 'none', threshold_cell(v))))
    return out


def float_cases(rng, n):
    """Floating constants: every suffix and spelling form, and for each of float / double / long double constants that lie
    just above and just below a rounding midpoint of the target format (closer than half an ulp of the next wider format, so
    that parsing in a wider format first and rounding again gives the wrong neighbour)."""
    from fractions import Fraction
    out = []
    for t in ['1.0', '1.', '.5', '1e5', '1E-5', '1.5e+3', '0x1p3', '0x.8p0', '0X1.8P1', '0x1p-1', '100.', '1e0', '0e0', '0.0', '0x0p0', '1.0e38', '1e-38', '1e-45', '1e38',
              '3.4028234663852886e38', '3.4028235677973366e38', '1e308', '1e-308', '5e-324', '2e-324', '1e-4950', '1e4932', '1.18973149535723176502e4932', '0.1', '0.2', '0.3', '1.1']:
        for suf in ('', 'f', 'F', 'l', 'L'):
            out.append((t + suf, 'C11|float|%s|form' % (suf or 'none')))

    def dec(fr):
        # exact decimal expansion of a dyadic rational
        num, den = fr.numerator, fr.denominator
        ip = num // den
        r = num % den
        digs = []
        while r:
            r *= 10
            digs.append(str(r // den))
            r %= den
        return '%d.%s' % (ip, ''.join(digs) or '0')
    for _ in range(n):
        suf, bits = rng.choice([('f', 24), ('', 53), ('L', 64)])
        m = rng.randrange(1 << (bits - 1), 1 << bits)
        e = rng.randrange(-12, 13)
        mid = Fraction(2 * m + 1, 1 << bits) * Fraction(2) ** e       # midpoint between m and m+1 (scaled into [2^e, 2^(e+1)))
        d = dec(mid)
        above = d + '0' * rng.randrange(0, 12) + '1'
        below = d[:-1] + str(int(d[-1]) - 1) + '9' * rng.randrange(8, 20) if d[-1] != '0' else d
        exact = d
        for (txt, how) in ((above, 'just-above-midpoint'), (below, 'just-below-midpoint'), (exact, 'exact-midpoint-%s' % ('even' if m % 2 == 0 else 'odd'))):
            out.append((txt + suf, 'C11|float|%s|%s' % (suf or 'none', how)))
    return out


def threshold_cell(v):
    for k in (63, 32, 31, 16, 15, 8, 7):
        if v >= (1 << k):
            return '>=2^%d' % k
    return '<2^7'


CHAR_ESC = ['a', 'b', 'f', 'n', 'r', 't', 'v', '\\\\', "\\'", '\\"', '\\?', '\\a', '\\b', '\\f', '\\n', '\\r', '\\t', '\\v', '\\e', '\\0', '\\7', '\\12', '\\101', '\\377', '\\x0', '\\x41', '\\x7f',
            '\\xff', '\\x80', 'A', 'z', '0', ' ', '~', '\\u00e9', '\\u20ac', '\\U0001F600', '\\u0041' if False else '\\u00C0', '\\xFF', '\\18', '\\1234' if False else '\\123']


def char_cases():
    out = []
    for pfx in ('', 'L', 'u', 'U'):
        for e in CHAR_ESC:
            if pfx == '' and e.startswith('\\u') or pfx == '' and e.startswith('\\U'):
                continue            # multi-byte value in a plain character constant: implementation-defined
            if pfx == 'u' and e == '\\U0001F600':
                continue            # does not fit char16_t
            if e in ('\\18',) and pfx != '':
                continue
            if e == '\\18':
                continue            # two characters: multi-character constant
            out.append(("%s'%s'" % (pfx, e), 'C11|char|%s|%s' % (pfx or 'none', esc_class(e))))
    return out


def esc_class(e):
    if not e.startswith('\\'):
        return 'plain'
    if e[1] in 'xX':
        return 'hex'
    if e[1] in 'uU':
        return 'ucn'
    if e[1].isdigit():
        return 'octal'
    return 'simple'


STR_PIECES = ['abc', 'a\\nb', '\\0x', '\\x41\\x42', '\\101\\102', '\\u00e9', '\\u20ac!', '\\U0001F600', 'é', '€uro', '😀', 'z\\\\', '\\"q\\"', '', '\\x7f', '\\377', '\\?', 'tab\\there', '\\e[0m', 'mixed é \\u00e9 \\xc3\\xa9',
              '\\\\u00e9', '\\\\U0001F600', 'a\\\\u20acb', '\\\\\\u00e9', 'C:\\\\users\\\\u1234', '\\\\x41', '\\\\\\\\u0041',
              '\\08', '\\128', '\\1289', '\\3778', '\\09a', '\\18\\19', 'x\\0' '9', '\\377' '9', '\\x4g', '\\x41g', '\\1234']


def string_cases(rng, n):
    out = []
    elem = {'': 'char', 'u8': 'char', 'u': 'unsigned short', 'U': 'unsigned int', 'L': 'int'}
    pfxs = ['', 'u8', 'u', 'U', 'L']
    for p in pfxs:
        for s in STR_PIECES:
            if p in ('u', 'U', 'L') and ('\\x' in s and any(ord(ch) > 127 for ch in s)):
                continue
            if '\\x' in s and p in ('', 'u8') and 'mixed' in s:
                pass
            out.append(('%s"%s"' % (p, s), elem[p], 'C11|str|%s|single' % (p or 'none')))
    # adjacent-literal concatenation: every prefix pair where C11 defines the result (same prefix, or one side unprefixed)
    for p1 in pfxs:
        for p2 in pfxs:
            if p1 and p2 and p1 != p2:
                continue
            for _ in range(n):
                a, b = rng.choice(STR_PIECES), rng.choice(STR_PIECES)
                if (a.endswith('\\x41\\x42') or re.search(r'\\x[0-9a-f]+$', a) or re.search(r'\\[0-7]{1,2}$', a)) and b[:1] and b[0] in '0123456789abcdefABCDEF':
                    pass      # escapes end at the literal boundary; fine, but keep it
                res = p1 or p2
                if res in ('u', 'U', 'L') and any(('\\x' in t and any(ord(ch) > 127 for ch in t)) for t in (a, b)):
                    continue
                k = rng.randrange(3)
                if k == 0:
                    text = '%s"%s" %s"%s"' % (p1, a, p2, b)
                elif k == 1:
                    text = '%s"%s"\n  %s"%s"' % (p1, a, p2, b)
                else:
                    text = '%s"%s" /* c */ %s"%s" %s"%s"' % (p1, a, p2, b, p2 if p1 else '', rng.choice(STR_PIECES))
                    if res in ('u', 'U', 'L') and '\\x' in text and any(ord(ch) > 127 for ch in text):
                        continue
                out.append((text, elem[res], 'C11|str|%s+%s|concat' % (p1 or 'none', p2 or 'none')))
    # a string literal enclosed in braces, with and without a trailing comma, initialises the array like the bare literal
    for p in pfxs:
        for piece in ('abc', '', 'a\\0b'):
            out.append(('{%s"%s"}' % (p, piece), elem[p], 'C11|str|%s|braced' % (p or 'none')))
            out.append(('{%s"%s",}' % (p, piece), elem[p], 'C11|str|%s|braced-trailing-comma' % (p or 'none')))
            out.append(('{ %s"%s" "x" , }' % (p, piece), elem[p], 'C11|str|%s|braced-trailing-comma' % (p or 'none')))
    return out


def boundary_codepoints(rng, nrandom):
    pts = set()
    for b in (0x7f, 0x80, 0x7ff, 0x800, 0xd7ff, 0xe000, 0xfffd, 0xffff, 0x10000, 0x1fffd, 0x20000, 0xeffff, 0xf0000, 0xffffd, 0x100000, 0x10ffff, 0xa0, 0xff, 0x100, 0x2028, 0xfeff, 0xfffe):
        for d in range(-2, 3):
            c = b + d
            if 0x20 <= c <= 0x10ffff and not (0xd800 <= c <= 0xdfff) and c not in (0x22, 0x5c, 0x27, 0x3f):
                pts.add(c)
    for p in range(0, 17):
        for off in (0, 1, 0xfffd, 0x8000):
            c = p * 0x10000 + off
            if 0x20 <= c <= 0x10ffff and not (0xd800 <= c <= 0xdfff) and c not in (0x22, 0x5c, 0x27, 0x3f):
                pts.add(c)
    while len(pts) < nrandom:
        c = rng.randrange(0x80, 0x110000)
        if not (0xd800 <= c <= 0xdfff):
            pts.add(c)
    return sorted(pts)


def unicode_program(pts):
    """Strings of code points in each encoding; expected bytes computed by Python's codecs."""
    lines = ['#include "vrt.h"']
    body = []
    exp = []
    chunk = 64
    k = 0
    for c0 in range(0, len(pts), chunk):
        cs = pts[c0:c0 + chunk]
        s = ''.join(chr(c) for c in cs)
        lines.append('static const unsigned int s32_%d[] = U"%s";' % (k, s))
        lines.append('static const unsigned short s16_%d[] = u"%s";' % (k, s))
        lines.append('static const char s8_%d[] = u8"%s";' % (k, s))
        lines.append('static const char sp_%d[] = "%s";' % (k, s))
        lines.append('static const int sw_%d[] = L"%s";' % (k, s))
        for nm, enc in (('s32', 'utf-32-le'), ('s16', 'utf-16-le'), ('s8', 'utf-8'), ('sp', 'utf-8'), ('sw', 'utf-32-le')):
            body.append('OUT(%d, %s_%d, sizeof %s_%d);' % (k, nm, k, nm, k))
            z = {'utf-32-le': 4, 'utf-16-le': 2, 'utf-8': 1}[enc]
            exp.append(('%d:%s' % (k, (s.encode(enc) + b'\0' * z).hex()), 'C11|str|%s|cp' % nm, cs[0], cs[-1]))
        k += 1
    # character constants for a sample
    for c in pts[::7]:
        body.append("OUTV(%d, U'%s'); OUTV(%d, L'%s');" % (k, chr(c), k, chr(c)))
        exp.append(('%d=%d' % (k, c), 'C11|char|U|cp', c, c))
        exp.append(('%d=%d' % (k, c), 'C11|char|L|cp', c, c))
        if c < 0x10000:
            body.append("OUTV(%d, u'%s');" % (k, chr(c)))
            exp.append(('%d=%d' % (k, c), 'C11|char|u|cp', c, c))
        k += 1
    src = '\n'.join(lines) + '\nint main(void) {\n' + '\n'.join(body) + '\nreturn 0;\n}\n'
    return src, exp


def transform(src, how):
    if how == 'bom':
        return '﻿' + src
    if how == 'crlf':
        return src.replace('\n', '\r\n')
    if how == 'cr':
        return src.replace('\n', '\r')
    if how == 'splice':
        # split tokens (not inside string literals' multibyte sequences) by backslash-newline at identifier/number interiors
        out = []
        for line in src.split('\n'):
            if line.startswith('#'):
                out.append(line)
                continue
            line = re.sub(r'\b(OUT)(V?\()', r'OU\\\nT\2', line, count=1)
            line = re.sub(r'\b(sizeof)\b', 'siz\\\\\neof', line, count=1)
            line = re.sub(r'(\d)(\d)', r'\1\\\n\2', line, count=1)
            out.append(line)
        return '\n'.join(out)
    if how in ('crlf+splice', 'cr+splice'):
        # CR LF (or lone CR) line ends *and* backslash-newlines: the backslash is followed by CR LF in the file
        return transform(src, 'splice').replace('\n', '\r\n' if how == 'crlf+splice' else '\r')
    return src


def run_prog(a):
    (idx, cc, work, src, refs) = a
    p = os.path.join(work, 'l%d.c' % idx)
    open(p, 'w', encoding='utf-8', newline='').write(src)
    res = {}
    for kind in (('chibicc', 'gcc', 'clang') if refs else ('chibicc',)):
        res[kind] = core.build_and_run(kind, cc, p, work, 'l%d' % idx, timeout=120)
    os.unlink(p)
    return idx, res


def run(ctx):
    cc = ctx.build('plain')
    work = ctx.tmpdir('c11')
    snap = ctx.snapshot()
    rng = ctx.rng
    ctx.rule = ('integer literal grid: 5 base spellings x 23 suffix spellings x 45 magnitudes around every typing threshold; character constants: 4 prefixes x 38 escapes; strings: 5 prefixes '
                'x 20 pieces + concatenations of every defined prefix pair; Unicode: exhaustive codec/Annex D harness + code points through the compiler in 5 encodings; '
                'the literal programs again under BOM/CRLF/CR/splice transformations; distinct = distinct key cells')
    ctx.assumptions += ['oracle: Python C11 typing ladder / Python codecs == gcc == clang; plain char constants with non-ASCII content and multi-character constants are not generated (implementation-defined)']
    # ---- (3) exhaustive harness
    uh = os.path.join(work, 'uh')
    rc, o, e = core.sh(['gcc', '-O1', '-g', '-fsanitize=address,undefined', '-fno-sanitize-recover=all', '-I' + snap, '-DUNICODE_C="%s"' % os.path.join(snap, 'unicode.c'),
                        os.path.join(core.VERIF, 'rt', 'unicode_harness.c'), '-o', uh])
    if rc != 0:
        raise core.Inconclusive('unicode harness does not build: ' + e.decode()[-500:])
    rc, o, e = core.sh([uh], env={'ASAN_OPTIONS': 'detect_leaks=0'}, timeout=600)
    out = o.decode('utf-8', 'replace')
    m = re.search(r'STATS codepoints=(\d+)', out)
    if m:
        ctx.count('codepoints_exhaustive', int(m.group(1)))
        ctx.evaluations += int(m.group(1))
        ctx.saw('unicode-harness')
    for l in out.split('\n'):
        mm = re.match(r'VIOLATION (\w+) (\S+) (U\+[0-9A-F]+)?', l)
        if mm:
            ctx.violation('C11|%s|%s|%s' % (mm.group(1), mm.group(2), mm.group(3) or ''), l, script='echo "build rt/unicode_harness.c against the tree and run it"; exit 1')
    if 'Sanitizer' in e.decode('utf-8', 'replace'):
        ctx.violation('C11|codec|sanitizer', core.first_line(e.decode('utf-8', 'replace')))
    ctx.extra['exhaustive_subspaces'] = ['encode_utf8/decode_utf8 round trip and is_ident1/is_ident2 vs Annex D for all 1 112 064 Unicode scalar values']

    # ---- (1) integer literals, (2) characters and strings
    ints = int_literal_cases()
    chars = char_cases()
    strs = string_cases(rng, ctx.scale(6, 60))
    progs = []     # (src, expectations list[(line or None, key, desc)])
    per = 700
    for c0 in range(0, len(ints), per):
        body, exp = [], []
        for j, (text, ty, v, key) in enumerate(ints[c0:c0 + per]):
            i = c0 + j
            body.append('{ typeof(%s) r = %s; OUT(%d, &r, sizeof r); OUTV(%d, ((typeof(%s))-1 < 0)); }' % (text, text, i, i, text))
            exp.append(('%d:%s' % (i, cint.to_bytes(ty, v).hex()), key + '|value', text))
            exp.append(('%d=%d' % (i, int(cint.signed(ty))), key + '|type', text))
        progs.append(('#include "vrt.h"\nint main(void) {\n' + '\n'.join(body) + '\nreturn 0;\n}\n', exp))
    body, exp = [], []
    for i, (text, key) in enumerate(chars):
        body.append('{ typeof(%s) r = %s; OUT(%d, &r, sizeof r); OUTV(%d, ((typeof(%s))-1 < 0)); }' % (text, text, i, i, text))
        exp += [(None, key + '|value', text), (None, key + '|type', text)]
    progs.append(('#include "vrt.h"\nint main(void) {\n' + '\n'.join(body) + '\nreturn 0;\n}\n', exp))
    glob, body, exp = [], [], []
    for i, (text, el, key) in enumerate(strs):
        glob.append('static const %s g%d[] = %s;' % (el, i, text))
        if text.startswith('{'):
            body.append('OUT(%d, g%d, sizeof g%d); { const %s a[] = %s; OUT(%d, a, sizeof a); } OUTV(%d, sizeof g%d); OUTV(%d, sizeof(g%d[0]));' % (i, i, i, el, text, i, i, i, i, i))
        else:
            body.append('OUT(%d, g%d, sizeof g%d); { const %s a[] = %s; OUT(%d, a, sizeof a); } OUTV(%d, sizeof(%s)); OUTV(%d, sizeof((%s)[0]) * 2 + ((typeof((%s)[0]))-1 < 0));' %
                        (i, i, i, el, text, i, i, text, i, text, text))
        exp += [(None, key + '|static', text), (None, key + '|auto', text), (None, key + '|sizeof', text), (None, key + '|element-type', text)]
    progs.append(('#include "vrt.h"\n' + '\n'.join(glob) + '\nint main(void) {\n' + '\n'.join(body) + '\nreturn 0;\n}\n', exp))
    body, exp = [], []
    for i, (text, key) in enumerate(float_cases(rng, ctx.scale(150, 3000))):
        body.append('{ typeof(%s) r = %s; OUT(%d, &r, sizeof r == 16 ? 10 : sizeof r); static typeof(%s) s = %s; OUT(%d, &s, sizeof s == 16 ? 10 : sizeof s); OUTV(%d, sizeof(%s)); }' %
                    (text, text, i, text, text, i, i, text))
        exp += [(None, key + '|auto', text), (None, key + '|static', text), (None, key + '|size', text)]
        if len(body) >= 400:
            progs.append(('#include "vrt.h"\nint main(void) {\n' + '\n'.join(body) + '\nreturn 0;\n}\n', exp))
            body, exp = [], []
    if body:
        progs.append(('#include "vrt.h"\nint main(void) {\n' + '\n'.join(body) + '\nreturn 0;\n}\n', exp))
    # ---- (4) Unicode through the compiler
    pts = boundary_codepoints(rng, ctx.scale(1500, 0))
    if ctx.tier == 'thorough':
        pts = [c for c in range(0x20, 0x110000) if not (0xd800 <= c <= 0xdfff) and c not in (0x22, 0x5c, 0x27, 0x3f, 0x7f)]
    usz = 16384
    for c0 in range(0, len(pts), usz):
        src, uexp = unicode_program(pts[c0:c0 + usz])
        progs.append((src, [(l, key + '|U+%04X..U+%04X' % (a, b) if False else key, 'code points U+%04X..U+%04X' % (a, b)) for (l, key, a, b) in uexp]))
    nbase = len(progs)
    # ---- (5) transformations of the same programs
    for i in range(nbase if ctx.tier == 'thorough' else min(nbase, 6)):
        for how in ('bom', 'crlf', 'cr', 'splice', 'crlf+splice', 'cr+splice'):
            src, exp = progs[i]
            progs.append((transform(src, how), [(l, k.replace('C11|', 'C11|%s:' % how, 1), d) for (l, k, d) in exp]))
    results = core.pmap(run_prog, [(i, cc, work, p[0], True) for i, p in enumerate(progs)])
    for idx, res in results:
        src, exp = progs[idx]
        g, c, x = res['gcc'], res['clang'], res['chibicc']
        files = {'lit.c': src.encode('utf-8')}
        script = '$CHIBICC -I$VERIF/rt -c -o l.o lit.c && gcc -o l l.o $RT && ./l > got.txt; gcc -w -I$VERIF/rt -o r lit.c $RT && ./r > ref.txt; cmp -s got.txt ref.txt && exit 0; diff got.txt ref.txt | head -4; exit 1'
        if g['stage'] != 'run' or c['stage'] != 'run':
            ctx.count('reference_failed_programs')
            ctx.sample({'reference_failed': (g['err'] + c['err']).decode('utf-8', 'replace')[-400:]})
            continue
        lg, lc = g['out'].decode().split('\n')[:-1], c['out'].decode().split('\n')[:-1]
        if x['stage'] != 'run' or x['rc'] != 0:
            ctx.violation('C11|%s|tu-%s-fail' % (exp[0][1].split('|')[1], x['stage']), 'chibicc failed (%s) on a literal program accepted by gcc and clang: %s' % (x['stage'], core.first_line(x['err'].decode('utf-8', 'replace'))), files=files, script=script)
            continue
        lx = x['out'].decode().split('\n')[:-1]
        if len(lg) != len(exp) or len(lc) != len(exp):
            raise core.Inconclusive('reference printed %d/%d lines, expected %d' % (len(lg), len(lc), len(exp)))
        ctx.evaluations += len(exp)
        ctx.count('observations', len(exp))
        if len(lx) != len(exp):
            ctx.violation('C11|tu|output-shape', 'chibicc build printed %d lines, expected %d' % (len(lx), len(exp)), files=files, script=script)
            continue
        for ln, (model, key, desc) in enumerate(exp):
            ctx.saw(key)
            if lg[ln] != lc[ln]:
                ctx.count('reference_ambiguous')
                continue
            if model is not None and model != lg[ln]:
                ctx.count('model_disagrees_with_references')
                continue
            if lx[ln] != lg[ln]:
                ctx.violation(key, '%s: chibicc %s, gcc = clang %s' % (desc[:80], lx[ln][:80], lg[ln][:80]), files=files, script=script)
    if ctx.counts.get('reference_failed_programs', 0) > 2:
        ctx.note_inconclusive('%d literal programs were rejected by a reference compiler' % ctx.counts['reference_failed_programs'])
    if ctx.counts.get('model_disagrees_with_references', 0) > 0.01 * max(1, ctx.counts.get('observations', 1)):
        ctx.note_inconclusive('Python model disagrees with gcc = clang on %d observations' % ctx.counts['model_disagrees_with_references'])
    # identifiers with extended characters
    idsrc = ['#include "vrt.h"']
    idbody = []
    sample = [0xc0, 0xe9, 0x100, 0x3b1, 0x4e2d, 0x1f600 if False else 0x20000, 0xaa, 0xb5, 0x2160, 0x3041, 0xff21 if False else 0xfa00]
    for i, c in enumerate(sample):
        idsrc.append('static int v%s_%d = %d;' % (chr(c), i, i + 1))
        idbody.append('OUTV(%d, v%s_%d);' % (i, chr(c), i))
    idsrc.append('static int x̀y = 77;')          # combining mark allowed in non-initial position
    idbody.append('OUTV(99, x̀y);')
    src = '\n'.join(idsrc) + '\nint main(void) {\n' + '\n'.join(idbody) + '\nreturn 0;\n}\n'
    p = os.path.join(work, 'ident.c')
    open(p, 'w', encoding='utf-8').write(src)
    rg = core.build_and_run('gcc', cc, p, work, 'ident')
    rx = core.build_and_run('chibicc', cc, p, work, 'ident')
    ctx.evaluations += 1
    ctx.saw('extended-identifiers')
    if rg['stage'] == 'run' and (rx['stage'] != 'run' or rx['out'] != rg['out']):
        ctx.violation('C11|ident|extended-characters', 'identifiers with Annex D characters: chibicc %s %s, gcc runs fine' % (rx['stage'], core.first_line(rx['err'].decode('utf-8', 'replace'))), files={'ident.c': src.encode('utf-8')})
    ctx.sample({'int_literal': ints[100][0], 'expected_type': ints[100][1]})
    ctx.sample({'string_case': strs[-1][0]})
