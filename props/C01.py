"""C01 - integer expressions have the C11 value and the C11 type.

Operands are read at run time from value tables that live in a gcc-compiled companion object, so no chibicc
conversion or literal sits between the table and the operand.  Every observation records the raw bytes of
`typeof(E) r = (E)` (size + value) and, per grid cell, the signedness of typeof(E).  Oracle: Python C11 model
(lib/cint.py) == gcc == clang.  Grid first (operators x 81 type pairs x boundary values, conversions, contexts),
random composites on top."""
import os, random
from lib import core, cint
from lib.cint import ALL, cname, leaf, ev, render, typeof, Undefined, BINOPS, UNOPS, to_bytes, convert, promote, sizeof

LEVEL = 'exploration'
ALLOBS = []
MIN_COUNTS = {"observations": (60000, 380000), 'cells': (1500, 1500)}
PER_TU = 1200


class Vals:
    """Value tables shared by all TUs of a run (companion object compiled by gcc)."""
    def __init__(self, rng):
        self.tab = {}
        for t in ALL:
            vs = list(cint.boundary_values(t))
            if t != 'bool':
                for _ in range(10):
                    vs.append(rng.randrange(cint.tmin(t), cint.tmax(t) + 1))
                for _ in range(6):
                    vs.append(convert(t, rng.randrange(-40, 40)))
            self.tab[t] = vs

    def leaf(self, t, i):
        return leaf('V_%s[%d]' % (t, i), t, self.tab[t][i])

    def pick(self, rng, t):
        return self.leaf(t, rng.randrange(len(self.tab[t])))

    def small(self, rng, t):
        """index of a small value (for shift counts etc.)"""
        idx = [i for i, v in enumerate(self.tab[t]) if 0 <= v < 64]
        return self.leaf(t, rng.choice(idx))

    def companion(self):
        out = ['#include <stdarg.h>', '#include "vrt.h"']
        for t in ALL:
            out.append('%s V_%s[] = {%s};' % (cname(t), t, ', '.join(lit(t, v) for v in self.tab[t])))
            out.append('%s id_%s(%s x) { return x; }' % (cname(t), t, cname(t)))
        out.append('enum EU { EU_A, EU_B = 7 }; enum ES { ES_N = -1, ES_P = 9 };')
        out.append('enum EU VEU[] = {%s};' % ', '.join('(enum EU)%s' % lit('u32', v) for v in self.tab['u32']))
        out.append('enum ES VES[] = {%s};' % ', '.join('(enum ES)%s' % lit('i32', v) for v in self.tab['i32']))
        out.append('''
void vout(long id, int kind, ...) {
  va_list ap; va_start(ap, kind);
  if (kind == 0) { int v = va_arg(ap, int); OUT(id, &v, sizeof v); }
  else if (kind == 1) { unsigned v = va_arg(ap, unsigned); OUT(id, &v, sizeof v); }
  else if (kind == 2) { long v = va_arg(ap, long); OUT(id, &v, sizeof v); }
  else { unsigned long v = va_arg(ap, unsigned long); OUT(id, &v, sizeof v); }
  va_end(ap);
}
struct S12 { int a, b, c; } PA12[16]; char PA1[16]; short PA2[16]; int PA4[16]; long PA8[16];
''')
        return '\n'.join(out) + '\n'

    def decls(self):
        out = ['#include "vrt.h"']
        for t in ALL:
            out.append('extern %s V_%s[];' % (cname(t), t))
            out.append('%s id_%s(%s x);' % (cname(t), t, cname(t)))
        out.append('void vout(long id, int kind, ...);')
        out.append('struct S12 { int a, b, c; }; extern struct S12 PA12[16]; extern char PA1[16]; extern short PA2[16]; extern int PA4[16]; extern long PA8[16];')
        out.append('enum { EN_NEG = -5, EN_BIG = 2147483647, EN_ONE = 1, EN_Z = 0 };')
        out.append('enum EU { EU_A, EU_B = 7 }; enum ES { ES_N = -1, ES_P = 9 }; extern enum EU VEU[]; extern enum ES VES[];')
        return '\n'.join(out) + '\n'


def lit(t, v):
    if t == 'i64':
        return '(-9223372036854775807L-1)' if v == -(1 << 63) else '%dL' % v
    if t == 'u64':
        return '%dUL' % v
    if t == 'u32':
        return '%dU' % v
    if t == 'i32' and v == -(1 << 31):
        return '(-2147483647-1)'
    return '%d' % v


class Obs:
    """One observation: C statements + expected output lines + violation key."""
    __slots__ = ('code', 'expect', 'key', 'desc', 'pre')

    def __init__(self, code, expect, key, desc, pre=''):
        self.code, self.expect, self.key, self.desc, self.pre = code, expect, key, desc, pre


def hexb(t, v):
    return to_bytes(t, v).hex()


def obs_value(e, key, desc):
    """typeof(E) r = (E); OUT bytes"""
    try:
        t, v = ev(e)
    except Undefined:
        return None
    txt = render(e)
    return Obs(lambda i, txt=txt: '{ typeof(%s) r = %s; OUT(%d, &r, sizeof r); }' % (txt, txt, i),
               lambda i, t=t, v=v: ['%d:%s' % (i, hexb(t, v))], key + '|value', desc or txt)


def constify(e):
    """The same expression over literal constants (typed by a cast where the literal alone would have another type)."""
    if e[0] == 'leaf':
        t, v = e[2], e[3]
        txt = lit(t, v) if t in ('i32', 'u32', 'i64', 'u64') else '((%s)%s)' % (cname(t), lit(t, v))
        return leaf(txt, t, v)
    return tuple(constify(x) if isinstance(x, tuple) else x for x in e)


def obs_const(e, key):
    """The expression as an integer constant expression: static initializer, enumerator / array bound where it fits."""
    try:
        t, v = ev(e)
    except Undefined:
        return []
    txt = render(constify(e))
    out = [Obs(lambda i, txt=txt: '{ static typeof(%s) r = %s; OUT(%d, &r, sizeof r); }' % (txt, txt, i),
               lambda i, t=t, v=v: ['%d:%s' % (i, hexb(t, v))], key + '|static-init', 'static initializer ' + txt)]
    if 0 <= v < 60000:
        out.append(Obs(lambda i, txt=txt: '{ char a[(%s) + 1]; OUTV(%d, sizeof a); }' % (txt, i), lambda i, v=v: ['%d=%d' % (i, v + 1)], key + '|array-bound', 'array bound ' + txt))
    if -(1 << 31) <= v < (1 << 31):
        out.append(Obs(lambda i, txt=txt: '{ enum { EC%d = %s }; OUTV(%d, EC%d); }' % (i, txt, i, i), lambda i, v=v: ['%d=%d' % (i, v)], key + '|enumerator', 'enumerator ' + txt))
    return out


def obs_sign(e, key):
    t = typeof(e)
    txt = render(e)
    return Obs(lambda i: 'OUTV(%d, ((typeof(%s))-1 < 0) * 10 + sizeof(%s));' % (i, txt, txt),
               lambda i: ['%d=%d' % (i, int(cint.signed(t)) * 10 + sizeof(t))], key + '|type', 'typeof ' + txt)


def bitfield_leaves(rng):
    """Bit-field operands: a bit-field whose values all fit in an int takes part in arithmetic as an int (C11 6.3.1.1p2), whatever its declared
    signedness.  Returns [(leaf expression of the promoted type, declaration text, description)]; declared types wider than int are left out
    (implementation-defined, gcc and clang differ)."""
    res = []
    k = 0
    for (cn, sg, maxw) in (('int', True, 32), ('unsigned', False, 32), ('unsigned short', False, 16), ('short', True, 16), ('unsigned char', False, 8), ('signed char', True, 8), ('_Bool', False, 1)):
        for w in sorted({1, 2, 3, 7, 8, 15, 16, 24, 31, 32} & set(range(1, maxw + 1))):
            if cn == '_Bool' and w != 1:
                continue
            lo, hi = (-(1 << (w - 1)), (1 << (w - 1)) - 1) if sg else (0, (1 << w) - 1)
            for v in sorted({lo, hi, 0, 1 if hi >= 1 else 0, hi // 2, lo // 2, rng.randrange(lo, hi + 1)}):
                k += 1
                nm = 'bfo%d' % k
                # the promoted type: int unless the field is a full-width unsigned int
                pt = 'u32' if (not sg and w == 32 and cn == 'unsigned') else 'i32'
                decl = 'static struct { char lead; %s f : %d; unsigned tail : 3; } %s = { 1, %d, 5 };' % (cn, w, nm, v)
                res.append((leaf('%s.f' % nm, pt, v), decl, '%s:%d' % (cn, w)))
    return res


def gen_bitfield_cells(V, rng, npairs):
    obs = []
    cells = set()
    leaves = bitfield_leaves(rng)
    for (lf, decl, what) in leaves:
        pre = (lambda i, decl=decl: decl)
        first = True

        def add(o, pre=pre):
            nonlocal first
            if o is None:
                return
            # every observation carries the declaration of its object; a translation unit emits each distinct declaration once
            o.pre = pre
            obs.append(o)
        for op in UNOPS:
            key = 'C01|bitfield|u%s|%s|-' % (op, what)
            cells.add(key)
            e = ('un', op, lf)
            add(obs_value(e, key, None))
            add(obs_sign(e, key))
        for op in rng.sample(BINOPS, 6):
            for tr in rng.sample(ALL, 3):
                key = 'C01|bitfield|%s|%s|%s' % (op, what, tr)
                cells.add(key)
                for _ in range(npairs):
                    b = V.small(rng, tr) if op in ('<<', '>>') else V.pick(rng, tr)
                    for e in (('bin', op, lf, b), ('bin', op, b, lf)):
                        if op in ('<<', '>>') and e[2] is b:
                            continue
                        add(obs_value(e, key, None))
                add(obs_sign(('bin', op, lf, V.pick(rng, tr)), key))
        key = 'C01|bitfield|?:|%s|-' % what
        cells.add(key)
        add(obs_value(('cond', V.pick(rng, 'i32'), lf, V.pick(rng, 'u32')), key, None))
        add(obs_value(('cond', V.pick(rng, 'i32'), lf, V.pick(rng, 'i8')), key, None))
        add(obs_sign(('cond', V.pick(rng, 'i32'), lf, V.pick(rng, 'i8')), key))
    return obs, len(cells)


def gen_bitfield_updates(rng):
    """Assignments to bit-fields: the value of `s.f = K`, `s.f op= K`, `++s.f`, `s.f++` (the old value for the postfix forms) and the value the
    field holds afterwards, at and around the ends of the field's range.  Expected values come from the definition: reduce modulo 2^w, reinterpret."""
    obs = []
    cells = set()
    k = 0
    for (cn, sg, maxw) in (('int', True, 32), ('unsigned', False, 32), ('unsigned short', False, 16), ('signed char', True, 8), ('_Bool', False, 1)):
        for w in sorted({1, 2, 3, 7, 8, 15, 31, 32} & set(range(1, maxw + 1))):
            if cn == '_Bool' and w != 1:
                continue
            lo, hi = (-(1 << (w - 1)), (1 << (w - 1)) - 1) if sg else (0, (1 << w) - 1)

            def fit(x):
                if cn == '_Bool':
                    return int(x != 0)
                x &= (1 << w) - 1
                return x - (1 << w) if sg and x >> (w - 1) else x
            for v0 in sorted({lo, hi, 0, hi - 1 if hi > lo else hi}):
                forms = [('=', rng.choice([hi + 1, lo - 1, 9, -1, 255, 1 << 20, hi, lo]))] + [(op, rng.choice([1, 3, hi, 2, 7])) for op in rng.sample(['+=', '-=', '*=', '|=', '^=', '<<=', '>>='], 3)]
                forms += [('pre++', 1), ('pre--', 1), ('post++', 1), ('post--', 1)]
                for (op, kk) in forms:
                    k += 1
                    nm = 'bfu%d' % k
                    decl = 'static struct { char lead; %s f : %d; unsigned tail : 3; } %s = { 1, %d, 5 };' % (cn, w, nm, v0)
                    if op == '=':
                        new = fit(kk); val = new; txt = '(%s.f = %d)' % (nm, kk)
                    elif op.startswith('pre') or op.startswith('post'):
                        new = fit(v0 + (1 if op.endswith('++') else -1)); val = new if op.startswith('pre') else v0
                        txt = ('%s%s.f' % (op[3:], nm)) if op.startswith('pre') else ('%s.f%s' % (nm, op[4:]))
                    else:
                        a = v0
                        if op in ('<<=', '>>='):
                            kk = rng.choice([0, 1, 2])
                            if a < 0:
                                continue
                        r = {'+=': a + kk, '-=': a - kk, '*=': a * kk, '|=': a | kk, '^=': a ^ kk, '<<=': a << kk, '>>=': a >> kk}[op]
                        if not (-(1 << 31) <= r < (1 << 31)) and not (w == 32 and not sg):
                            continue          # the int arithmetic itself must not overflow
                        new = fit(r); val = new; txt = '(%s.f %s %d)' % (nm, op, kk)
                    key = 'C01|bitfield-update|%s|%s:%d|%s' % (op, cn, w, 'low-end' if v0 == lo else 'high-end' if v0 == hi else 'inside')
                    cells.add(key)
                    o = Obs(lambda i, txt=txt, nm=nm: '{ long r = %s; OUTV(%d, r); OUTV(%d, %s.f); OUTV(%d, %s.tail * 10 + %s.lead); }' % (txt, i, i, nm, i, nm, nm),
                            lambda i, val=val, new=new: ['%d=%d' % (i, val), '%d=%d' % (i, new), '%d=51' % i], key, '%s with f = %d' % (txt, v0))
                    o.pre = (lambda i, decl=decl: decl)
                    obs.append(o)
    return obs, len(cells)


def gen_enum_cells(V, rng, npairs):
    """Operands of enumerated type: an enum without negative enumerators behaves as unsigned int, one with a negative enumerator as int
    (gcc = clang; the references confirm each observation).  Conversions to every type, unary and binary operators, ?:."""
    obs = []
    cells = set()
    for (en, t) in (('EU', 'u32'), ('ES', 'i32')):
        leaves = [leaf('V%s[%d]' % (en, i), t, V.tab[t][i]) for i in range(len(V.tab[t]))]      # objects of enumerated type, defined by the gcc-compiled companion
        for tt in ALL:
            key = 'C01|enum|cast|%s|%s' % (en, tt)
            cells.add(key)
            for lf in rng.sample(leaves, min(len(leaves), 6)):
                obs.append(obs_value(('cast', tt, lf), key, None))
        for op in UNOPS:
            key = 'C01|enum|u%s|%s|-' % (op, en)
            cells.add(key)
            for lf in rng.sample(leaves, 4):
                o = obs_value(('un', op, lf), key, None)
                if o:
                    obs.append(o)
            obs.append(obs_sign(('un', op, leaves[0]), key))
        for op in BINOPS:
            for tr in rng.sample(ALL, 3):
                key = 'C01|enum|%s|%s|%s' % (op, en, tr)
                cells.add(key)
                for _ in range(npairs):
                    lf = rng.choice(leaves)
                    b = V.small(rng, tr) if op in ('<<', '>>') else V.pick(rng, tr)
                    for e in (('bin', op, lf, b), ('bin', op, b, lf)):
                        if op in ('<<', '>>') and e[2] is b:
                            continue
                        o = obs_value(e, key, None)
                        if o:
                            obs.append(o)
                obs.append(obs_sign(('bin', op, leaves[0], V.pick(rng, tr)), key))
        key = 'C01|enum|?:|%s|-' % en
        cells.add(key)
        obs.append(obs_value(('cond', V.pick(rng, 'i32'), rng.choice(leaves), V.pick(rng, 'i8')), key, None))
        obs.append(obs_sign(('cond', V.pick(rng, 'i32'), rng.choice(leaves), V.pick(rng, 'i8')), key))
    return [o for o in obs if o], len(cells)


def gen_grid(ctx, V, rng, npairs):
    obs, cells = gen_bitfield_cells(V, rng, max(1, npairs // 6))
    o3, c3 = gen_enum_cells(V, rng, max(1, npairs // 6))
    obs += o3
    cells += c3
    o2, c2 = gen_bitfield_updates(rng)
    obs += o2
    cells += c2
    # binary operators x 81 type pairs
    for op in BINOPS:
        for tl in ALL:
            for tr in ALL:
                key = 'C01|init|%s|%s|%s' % (op, tl, tr)
                pairs = []
                nl, nr = len(V.tab[tl]), len(V.tab[tr])
                tries = 0
                while len(pairs) < npairs and tries < npairs * 12:
                    tries += 1
                    a = V.leaf(tl, rng.randrange(nl))
                    b = V.small(rng, tr) if (op in ('<<', '>>') and rng.random() < 0.85) else V.leaf(tr, rng.randrange(nr))
                    e = ('bin', op, a, b)
                    o = obs_value(e, key, None)
                    if o:
                        pairs.append((e, o))
                if not pairs:
                    continue
                cells += 1
                obs.append(obs_sign(pairs[0][0], key))
                obs += [o for _, o in pairs]
                # the same expression in other contexts (one or two pairs per cell)
                for (e, _) in pairs[:2]:
                    obs += contexts(e, op, tl, tr, rng)
                # ... and folded by the compiler (operands are literals)
                for (e, _) in pairs[:3]:
                    obs += obs_const(e, 'C01|const|%s|%s|%s' % (op, tl, tr))
    for op in UNOPS:
        for t in ALL:
            key = 'C01|init|u%s|%s|-' % (op, t)
            got = []
            for i in range(len(V.tab[t])):
                e = ('un', op, V.leaf(t, i))
                o = obs_value(e, key, None)
                if o:
                    got.append((e, o))
            if got:
                cells += 1
                obs.append(obs_sign(got[0][0], key))
                obs += [o for _, o in got]
                obs += contexts(got[0][0], 'u' + op, t, '-', rng)
    # conversions: 9 x 9, every table value
    for tf in ALL:
        for tt in ALL:
            key = 'C01|init|cast|%s|%s' % (tf, tt)
            cells += 1
            for i in range(len(V.tab[tf])):
                obs.append(obs_value(('cast', tt, V.leaf(tf, i)), key, None))
            obs.append(obs_sign(('cast', tt, V.leaf(tf, 0)), key))
    # conditional operator typing, logical operators
    for tl in ALL:
        for tr in ALL:
            key = 'C01|init|?:|%s|%s' % (tl, tr)
            cells += 1
            for _ in range(3):
                e = ('cond', V.pick(rng, rng.choice(ALL)), V.pick(rng, tl), V.pick(rng, tr))
                obs.append(obs_value(e, key, None))
            obs.append(obs_sign(e, key))
            for lop in ('land', 'lor'):
                key2 = 'C01|init|%s|%s|%s' % ('&&' if lop == 'land' else '||', tl, tr)
                for _ in range(2):
                    obs.append(obs_value((lop, V.pick(rng, tl), V.pick(rng, tr)), key2, None))
    # compound assignment and ++/--
    for op in ['+', '-', '*', '/', '%', '&', '|', '^', '<<', '>>']:
        for tl in ALL:
            for tr in ALL:
                key = 'C01|op=|%s=|%s|%s' % (op, tl, tr)
                n = 0
                tries = 0
                while n < max(2, npairs // 6) and tries < 40:
                    tries += 1
                    a = V.pick(rng, tl)
                    b = V.small(rng, tr) if op in ('<<', '>>') else V.pick(rng, tr)
                    try:
                        t, v = ev(('bin', op, a, b))
                    except Undefined:
                        continue
                    res = convert(tl, v)
                    n += 1
                    code = lambda i, a=a, b=b, op=op, tl=tl: ('{ %s a = %s; typeof(a %s= %s) r = (a %s= %s); OUT(%d, &r, sizeof r); OUT(%d, &a, sizeof a); }'
                                                              % (cname(tl), a[1], op, b[1], op, b[1], i, i))
                    exp = lambda i, tl=tl, res=res: ['%d:%s' % (i, hexb(tl, res)), '%d:%s' % (i, hexb(tl, res))]
                    obs.append(Obs(code, exp, key + '|value', '%s a=%s; a %s= %s' % (cname(tl), a[1], op, b[1])))
                if n:
                    cells += 1
    # simple assignment: the value of `a = b` is the value of a after the assignment (b converted to the type of a), also when chained or widened
    for tl in ALL:
        for tr in ALL:
            key = 'C01|assign|=|%s|%s' % (tl, tr)
            n = 0
            for _ in range(max(2, npairs // 4)):
                b = V.pick(rng, tr)
                res = convert(tl, b[3])
                n += 1
                code = lambda i, tl=tl, b=b: ('{ %s a = 0; long w = (a = %s); typeof(a = %s) r = (a = %s); long c; %s a2 = 0; c = a2 = a = %s; OUTV(%d, w); OUT(%d, &r, sizeof r); OUTV(%d, c); OUTV(%d, sizeof(a = %s)); }'
                                              % (cname(tl), b[1], b[1], b[1], cname(tl), b[1], i, i, i, i, b[1]))
                exp = lambda i, tl=tl, res=res: ['%d=%d' % (i, convert('i64', res)), '%d:%s' % (i, hexb(tl, res)), '%d=%d' % (i, convert('i64', res)), '%d=%d' % (i, sizeof(tl))]
                obs.append(Obs(code, exp, key + '|value', '%s a; a = %s' % (cname(tl), b[1])))
            cells += 1
    for t in ALL:
        for form in ('++a', '--a', 'a++', 'a--'):
            key = 'C01|incdec|%s|%s|-' % (form, t)
            cells += 1
            for i in range(len(V.tab[t])):
                a = V.leaf(t, i)
                d = 1 if '+' in form else -1
                # a = a +/- 1 computed in the promoted/common type, then converted back
                try:
                    tt, v = ev(('bin', '+' if d > 0 else '-', a, leaf('1', 'i32', 1)))
                except Undefined:
                    continue
                new = convert(t, v)
                val = new if form[0] in '+-' else a[3]
                code = lambda i2, a=a, form=form, t=t: ('{ %s a = %s; typeof(%s) r = %s; OUT(%d, &r, sizeof r); OUT(%d, &a, sizeof a); }'
                                                        % (cname(t), a[1], form, form, i2, i2))
                exp = lambda i2, t=t, val=val, new=new: ['%d:%s' % (i2, hexb(t, val)), '%d:%s' % (i2, hexb(t, new))]
                obs.append(Obs(code, exp, key + '|value', '%s a=%s; %s' % (cname(t), a[1], form)))
    # pointers: comparison, difference, scaling
    for (arr, esz) in (('PA1', 1), ('PA2', 2), ('PA4', 4), ('PA8', 8), ('PA12', 12)):
        key = 'C01|ptr|elem%d' % esz
        cells += 1
        for _ in range(12):
            i, j = rng.randrange(16), rng.randrange(16)
            k = rng.randrange(-i, 16 - i)
            for (txt, val, ty) in (
                    ('(&%s[%d] - &%s[%d])' % (arr, i, arr, j), i - j, 'i64'),
                    ('(&%s[%d] < &%s[%d])' % (arr, i, arr, j), int(i < j), 'i32'),
                    ('(&%s[%d] >= &%s[%d])' % (arr, i, arr, j), int(i >= j), 'i32'),
                    ('(&%s[%d] == &%s[%d])' % (arr, i, arr, j), int(i == j), 'i32'),
                    ('((&%s[%d] + %d) - %s)' % (arr, i, k, arr), i + k, 'i64'),
                    ('((%d + &%s[%d]) - &%s[0])' % (k, arr, i, arr), i + k, 'i64'),
                    ('((&%s[%d] - %d) - %s)' % (arr, i, -k, arr), i + k, 'i64'),
                    ('((char *)&%s[%d] - (char *)&%s[%d])' % (arr, i, arr, j), (i - j) * esz, 'i64')):
                e = leaf(txt, ty, val)
                obs.append(obs_value(e, key, txt))
    # enumeration constants
    for (nm, val) in (('EN_NEG', -5), ('EN_BIG', 2147483647), ('EN_ONE', 1), ('EN_Z', 0)):
        for t in ('u32', 'i64', 'u8', 'u64', 'i16'):
            for op in ('+', '<', '/', '>>', '&'):
                b = V.small(rng, t) if op == '>>' else V.pick(rng, t)
                e = ('bin', op, leaf(nm, 'i32', val), b) if op != '>>' else ('bin', op, b, leaf('EN_ONE', 'i32', 1))
                o = obs_value(e, 'C01|init|enum%s|i32|%s' % (op, t), None)
                if o:
                    obs.append(o)
    return [o for o in obs if o], cells


def contexts(e, op, tl, tr, rng):
    """The same expression E in the other syntactic contexts of the property."""
    res = []
    try:
        t, v = ev(e)
    except Undefined:
        return res
    txt = render(e)
    base = '%s|%s|%s' % (op, tl, tr)
    # plain assignment to every target type (conversion as if by assignment)
    tt = rng.choice(ALL)
    res.append(Obs(lambda i, tt=tt: '{ %s x; x = %s; OUT(%d, &x, sizeof x); }' % (cname(tt), txt, i),
                   lambda i, tt=tt: ['%d:%s' % (i, hexb(tt, convert(tt, v)))], 'C01|assign:%s|%s|value' % (tt, base), 'x = ' + txt))
    # argument to a prototyped function (gcc-compiled identity) and its return value
    tt2 = rng.choice(ALL)
    res.append(Obs(lambda i, tt2=tt2: '{ %s x = id_%s(%s); OUT(%d, &x, sizeof x); }' % (cname(tt2), tt2, txt, i),
                   lambda i, tt2=tt2: ['%d:%s' % (i, hexb(tt2, convert(tt2, v)))], 'C01|arg:%s|%s|value' % (tt2, base), 'id(' + txt + ')'))
    # variadic argument: default argument promotions only
    pt = promote(t)
    kind = {'i32': 0, 'u32': 1, 'i64': 2, 'u64': 3}[pt]
    res.append(Obs(lambda i: 'vout(%d, %d, %s);' % (i, kind, txt),
                   lambda i: ['%d:%s' % (i, hexb(pt, v))], 'C01|vararg|%s|value' % base, 'vout(' + txt + ')'))
    # return from a chibicc-compiled function with a converting return type
    tt3 = rng.choice(ALL)
    res.append(Obs(lambda i, tt3=tt3: '{ %s x = ret_%d(); OUT(%d, &x, sizeof x); }' % (cname(tt3), i, i),
                   lambda i, tt3=tt3: ['%d:%s' % (i, hexb(tt3, convert(tt3, v)))], 'C01|return:%s|%s|value' % (tt3, base), 'return ' + txt,
                   pre=lambda i, tt3=tt3: 'static %s ret_%d(void) { return %s; }' % (cname(tt3), i, txt)))
    # conditions
    tv = int(v != 0)
    res.append(Obs(lambda i: '{ if (%s) OUTV(%d, 1); else OUTV(%d, 0); OUTV(%d, %s ? 11 : 22); OUTV(%d, !%s); int n = 0; while (%s) { n++; break; } OUTV(%d, n); }'
                   % (txt, i, i, i, txt, i, txt, txt, i),
                   lambda i: ['%d=%d' % (i, tv), '%d=%d' % (i, 11 if tv else 22), '%d=%d' % (i, 1 - tv), '%d=%d' % (i, tv)],
                   'C01|condition|%s|value' % base, 'if (' + txt + ')'))
    return res


def gen_composites(V, rng, n, depth):
    obs = []
    ops_w = BINOPS + ['+', '-', '*', '&', '|', '^', '<', '==']

    def tree(d):
        r = rng.random()
        if d <= 0 or r < 0.18:
            if rng.random() < 0.2:
                l = cint.literal(rng)
                if l:
                    return l
            return V.pick(rng, rng.choice(ALL))
        if r < 0.30:
            return ('un', rng.choice(UNOPS), tree(d - 1))
        if r < 0.40:
            return ('cast', rng.choice(ALL), tree(d - 1))
        if r < 0.47:
            return ('cond', tree(d - 2), tree(d - 1), tree(d - 1))
        if r < 0.52:
            return (rng.choice(['land', 'lor']), tree(d - 1), tree(d - 1))
        if r < 0.55:
            return ('comma', tree(d - 2), tree(d - 1))
        op = rng.choice(ops_w)
        b = tree(d - 1)
        if op in ('<<', '>>') and rng.random() < 0.8:
            b = ('bin', '&', b, leaf(str(rng.choice([7, 15, 31])), 'i32', rng.choice([7, 15, 31])))
            b = ('bin', '&', b[2], leaf(str(b[3][3]), 'i32', b[3][3]))
        return ('bin', op, tree(d - 1), b)
    tries = 0
    while len(obs) < n and tries < n * 30:
        tries += 1
        e = tree(rng.randrange(2, depth + 1))
        o = obs_value(e, 'C01|composite|' + core.sha(render(e)), None)
        if o:
            obs.append(o)
            if rng.random() < 0.3:
                obs.append(obs_sign(e, 'C01|composite|' + core.sha(render(e))))
    return obs


def run_tu(a):
    """Compile and run one TU under the three compilers; return per-compiler output lines."""
    (idx, cc, work, src, companion_obj, nlines) = a
    p = os.path.join(work, 'tu%d.c' % idx)
    open(p, 'w').write(src)
    res = {}
    for kind in ('chibicc', 'gcc', 'clang'):
        r = core.build_and_run(kind, cc, p, work, 'tu%d' % idx, extra_objs=[companion_obj], timeout=60)
        res[kind] = r
    os.unlink(p)
    return idx, res


def run(ctx):
    cc = ctx.build('plain')
    work = ctx.tmpdir('c01')
    rng = ctx.rng
    V = Vals(rng)
    comp_c = os.path.join(work, 'vals.c')
    open(comp_c, 'w').write(V.companion())
    comp_o = os.path.join(work, 'vals.o')
    rc, o, e = core.sh(['gcc', '-O0', '-w', '-c', '-I' + os.path.join(core.VERIF, 'rt'), '-o', comp_o, comp_c])
    if rc != 0:
        raise core.Inconclusive('companion does not compile: ' + e.decode()[-500:])
    ctx.rule = ('observation = raw bytes of `typeof(E) r = (E)` (or of the converted object in the assignment/argument/return/'
                'variadic/condition/op=/++ contexts) for operands read from run-time tables; grid = 16 binary operators x 81 type '
                'pairs, 4 unary x 9, 9x9 conversions, ?:/&&/|| x 81, 10 op= x 81, ++/-- x 9, pointer arithmetic, enum constants; '
                'distinct = distinct violation-key cells (context|operator|lhs type|rhs type) exercised + distinct composite expressions')
    ctx.assumptions += ['oracle: Python C11 model == gcc -O0 == clang -O0 (observations where a reference disagrees with the model are discarded and counted)',
                        'plain char is signed; >> on negative signed values is arithmetic; conversion to signed types is modular (gcc/clang/psABI)']
    grid, cells = gen_grid(ctx, V, rng, ctx.scale(12, 48))
    comps = gen_composites(V, rng, ctx.scale(20000, 300000), ctx.scale(5, 7))
    allobs = grid + comps
    global ALLOBS
    ALLOBS = allobs
    ctx.count('cells', cells)
    # assemble TUs
    tus = []
    decl = V.decls()
    for k in range(0, len(allobs), PER_TU):
        chunk = allobs[k:k + PER_TU]
        pre, body, exp, owners = [], [], [], []
        for j, o in enumerate(chunk):
            oid = k + j
            if o.pre:
                d = o.pre(oid)
                if d not in pre:
                    pre.append(d)
            body.append(o.code(oid))
            for line in o.expect(oid):
                exp.append(line)
                owners.append(oid)
        src = decl + '\n'.join(pre) + '\nint main(void) {\n' + '\n'.join(body) + '\nreturn 0;\n}\n'
        tus.append((len(tus), src, exp, owners))
    results = core.pmap(run_tu, [(i, cc, work, src, comp_o, len(exp)) for (i, src, exp, owners) in tus])
    discarded = 0
    for (idx, res) in results:
        _, src, exp, owners = tus[idx]
        outs = {}
        for kind in ('gcc', 'clang', 'chibicc'):
            r = res[kind]
            if r['stage'] != 'run' or r['rc'] != 0:
                outs[kind] = None
            else:
                outs[kind] = r['out'].decode('utf-8', 'replace').split('\n')[:-1]
        refs = [k for k in ('gcc', 'clang') if outs[k] is not None]
        for k in ('gcc', 'clang'):
            if outs[k] is None:
                et = res[k]['err'].decode('utf-8', 'replace') if isinstance(res[k]['err'], bytes) else str(res[k]['err'])
                if 'internal compiler error' in et or 'Please submit a full bug report' in et or 'PLEASE submit a bug report' in et:
                    # the reference compiler itself crashed on this unit (seen with gcc 12 on one unit in 150 000): the model and the other reference still decide
                    ctx.count('reference_compiler_crashed')
                else:
                    refs = []
        if not refs:
            raise core.Inconclusive('reference compiler failed on a generated TU: %s' % (res['gcc']['err'][-300:] + res['clang']['err'][-300:]))
        x = res['chibicc']
        if outs['chibicc'] is None:
            key = 'C01|tu|%s' % ('compile-fail' if x['stage'] == 'compile' else 'run-fail')
            ctx.violation(key, 'chibicc %s stage failed on a TU accepted by gcc and clang: rc=%s %s' % (x['stage'], x['rc'], core.first_line(x['err'].decode('utf-8', 'replace'))),
                          files={'tu.c': src, 'vals.c': V.companion()},
                          script='$CHIBICC -I$VERIF/rt -c -o tu.o tu.c || exit 1; gcc -I$VERIF/rt -c -w vals.c -o vals.o && gcc -o tu.exe tu.o vals.o $RT && ./tu.exe > /dev/null || exit 1; exit 0')
            continue
        bad_ids = set()
        for kind in refs:
            if len(outs[kind]) != len(exp):
                raise core.Inconclusive('%s produced %d lines, expected %d' % (kind, len(outs[kind]), len(exp)))
            for ln, (a, b) in enumerate(zip(outs[kind], exp)):
                if a != b:
                    bad_ids.add(owners[ln])
        discarded += len(bad_ids)
        got = outs['chibicc']
        ctx.evaluations += len(exp)
        ctx.count('observations', len(exp))
        if len(got) != len(exp):
            ctx.violation('C01|tu|output-shape', 'chibicc build printed %d lines, expected %d' % (len(got), len(exp)), files={'tu.c': src})
            continue
        for ln, (a, b) in enumerate(zip(got, exp)):
            oid = owners[ln]
            if a != b and oid not in bad_ids:
                ob = ALLOBS[oid]
                ctx.violation(ob.key, '%s: chibicc gives %s, C11 (= gcc = clang) gives %s' % (ob.desc, a, b),
                              files={'tu.c': src, 'vals.c': V.companion(), 'expected.txt': '\n'.join(exp) + '\n'},
                              script='$CHIBICC -I$VERIF/rt -c -o tu.o tu.c && gcc -I$VERIF/rt -c -w vals.c -o vals.o && gcc -o tu.exe tu.o vals.o $RT && ./tu.exe > got.txt; '
                                     'if cmp -s got.txt expected.txt; then exit 0; else diff got.txt expected.txt | head -5; exit 1; fi')
    # pointer +/- integer scales the integer operand by the element size in a 64-bit multiplication (shared generator with C04)
    from props import C04
    work2 = ctx.tmpdir('c01ptr')
    for i in range(ctx.scale(2, 20)):
        src, owners = C04.bigindex_tu(rng, 300)
        p = os.path.join(work2, 'ps%d.c' % i)
        open(p, 'w').write(src)
        verdict, r = core.three_way(cc, p, work2, 'ps%d' % i)
        if verdict in ('ref-fail', 'ambiguous'):
            raise core.Inconclusive('pointer-scaling unit: references fail or disagree')
        x, g = r['chibicc'], r['gcc']
        if x['stage'] != 'run' or x['rc'] != 0:
            ctx.violation('C01|pointer-scale|tu-%s-fail' % x['stage'], core.first_line(x['err'].decode('utf-8', 'replace')), files={'tu.c': src})
            continue
        lx, lg = x['out'].decode().split('\n')[:-1], g['out'].decode().split('\n')[:-1]
        ctx.evaluations += len(lg)
        ctx.count('observations', len(lg))
        for ln in range(min(len(lx), len(lg), len(owners))):
            key = owners[ln][0].replace('C04|index-scale|', 'C01|pointer-scale|')
            ctx.saw(key)
            if lx[ln] != lg[ln]:
                ctx.violation(key, '%s: chibicc %s, gcc = clang %s' % (owners[ln][1], lx[ln], lg[ln]), files={'tu.c': src},
                              script='$CHIBICC -I$VERIF/rt -c -o tu.o tu.c && gcc -o tu.exe tu.o $RT && ./tu.exe > got.txt; gcc -w -I$VERIF/rt -o ref.exe tu.c $RT && ./ref.exe > ref.txt; cmp -s got.txt ref.txt && exit 0; exit 1')
    for o in allobs:
        ctx.saw(o.key)
    ctx.count('reference_disagreements', discarded)
    if discarded > 0.02 * max(1, len(allobs)):
        ctx.note_inconclusive('model disagrees with gcc/clang on %d observations' % discarded)
    for o in (grid[1], grid[len(grid) // 2], comps[0], comps[-1]):
        ctx.sample({'key': o.key, 'code': o.code(0), 'expected': o.expect(0)})
    ctx.extra['exhaustive_subspaces'] = ['operator x (lhs type, rhs type) grid: all 16 binary operators x 81 pairs, 4 unary x 9, 81 conversions x all table values']


