"""C08 - type sizes, alignments and layouts equal the psABI.

(1) every permutation of every valid type-specifier multiset (with qualifiers interleaved): size, signedness and
    int/float kind must equal gcc = clang;  (2) random struct/union member sequences (scalars, arrays, nested and
    anonymous aggregates, bit-fields incl. zero-width and unnamed, flexible array members) x aligned / _Alignas / packed:
    sizeof, _Alignof, offsetof of every member designator, and bit-field positions observed through the
    "set one member to all ones, dump the bytes" image;  (3) declarators (pointer/array/function nesting) via sizeof.
Oracle: gcc == clang (psABI implementations)."""
import re, os, itertools, random
from lib import core, cint, ctype

LEVEL = 'exploration'
MIN_COUNTS = {'observations': (60000, 800000), 'specifier_spellings': (150, 150)}

VALID_SETS = [
    ('void',), ('char',), ('signed', 'char'), ('unsigned', 'char'), ('short',), ('signed', 'short'), ('short', 'int'), ('signed', 'short', 'int'),
    ('unsigned', 'short'), ('unsigned', 'short', 'int'), ('int',), ('signed',), ('signed', 'int'), ('unsigned',), ('unsigned', 'int'),
    ('long',), ('signed', 'long'), ('long', 'int'), ('signed', 'long', 'int'), ('unsigned', 'long'), ('unsigned', 'long', 'int'),
    ('long', 'long'), ('signed', 'long', 'long'), ('long', 'long', 'int'), ('signed', 'long', 'long', 'int'),
    ('unsigned', 'long', 'long'), ('unsigned', 'long', 'long', 'int'), ('float',), ('double',), ('long', 'double'), ('_Bool',),
]


def spellings(rng):
    res = []
    seen = set()
    for ms in VALID_SETS:
        for perm in set(itertools.permutations(ms)):
            if perm in seen:
                continue
            seen.add(perm)
            res.append((' '.join(perm), ms))
            # qualifiers / storage interleaved
            q = list(perm)
            q.insert(rng.randrange(len(q) + 1), rng.choice(['const', 'volatile', 'const volatile', 'register' if False else 'const']))
            res.append((' '.join(q), ms))
    return res


def spec_program(sp):
    lines = ['#include "vrt.h"']
    body = []
    for k, (text, ms) in enumerate(sp):
        if ms == ('void',):
            lines.append('typedef %s TS%d; TS%d *pv%d;' % (text, k, k, k))
            body.append('OUTV(%d, sizeof(pv%d));' % (k, k))
            continue
        lines.append('typedef %s TS%d; TS%d gv%d;' % (text, k, k, k))
        body.append('OUTV(%d, sizeof(TS%d) * 1000 + _Alignof(TS%d) * 100 + (((TS%d)-1 < 0) ? 10 : 0) + ((TS%d)1.5 != 1) + sizeof(gv%d) * 100000);' % (k, k, k, k, k, k))
    return '\n'.join(lines) + '\nint main(void) {\n' + '\n'.join(body) + '\nreturn 0;\n}\n'


def names_program(rng):
    """Typedef names re-used as member / object names: after a type specifier has been seen, an identifier that is also a typedef name is a declarator."""
    tds = [('TN_long', 'long'), ('TN_char', 'char'), ('TN_arr', 'short [3]'), ('TN_st', 'struct { int q; char r; }'), ('TN_ptr', 'char *'), ('TN_u', 'unsigned')]
    lines = ['#include "vrt.h"'] + ['typedef %s;' % (t.replace(' [3]', ' %s[3]' % n) if '[3]' in t else '%s %s' % (t, n)) for n, t in tds]
    body, owners = [], []
    specs = ['char', 'short', 'int', 'long', 'unsigned', 'signed char', 'unsigned long', 'long long', 'double', '_Bool', 'const int', 'volatile short', 'struct { char z[5]; }', 'TN_long', 'TN_st', 'TN_arr', 'TN_ptr']
    k = 0
    for _ in range(60):
        nm = rng.sample([n for n, _t in tds], rng.randrange(1, 4))
        mem = ['char lead;']
        paths = []
        for n in nm:
            sp = rng.choice(specs)
            form = rng.choice(['%s %s;', '%s %s[2];', '%s *%s;', '%s %s, other_%s;', '%s %s : 5;' if sp in ('int', 'unsigned', 'long', 'short', 'char') else '%s %s;'])
            mem.append(form % ((sp, n, n) if form.count('%s') == 3 else (sp, n)))
            paths.append(n)
        mem.append('char tail;')
        kind = rng.choice(['struct', 'struct', 'union'])
        lines.append('%s NM%d { %s };' % (kind, k, ' '.join(mem)))
        body.append('OUTV(%d, sizeof(%s NM%d)); OUTV(%d, _Alignof(%s NM%d)); OUTV(%d, (long)&((%s NM%d *)0)->tail);' % (k, kind, k, k, kind, k, k, kind, k))
        owners += [('C08|names|typedef-name-as-member|size', ' '.join(mem)), ('C08|names|typedef-name-as-member|align', ' '.join(mem)), ('C08|names|typedef-name-as-member|offset', ' '.join(mem))]
        for n in paths:
            if ': 5' in ' '.join(m for m in mem if ' %s ' % n in m or ' %s;' % n in m or ' %s[' % n in m or '*%s' % n in m or ' %s,' % n in m):
                continue
            body.append('OUTV(%d, (long)&((%s NM%d *)0)->%s);' % (k, kind, k, n))
            owners.append(('C08|names|typedef-name-as-member|offset', '%s in %s' % (n, ' '.join(mem))))
        # block scope: an object named like the typedef
        n = rng.choice(nm)
        sp = rng.choice(['short', 'unsigned char', 'long', 'double', 'struct { char z[7]; }'])
        body.append('{ %s %s; OUTV(%d, sizeof %s); } { %s inner; OUTV(%d, sizeof inner); }' % (sp, n, k, n, n, k))
        owners += [('C08|names|typedef-name-as-object|size', '%s %s' % (sp, n)), ('C08|names|typedef-name-as-object|size', 'inner')]
        k += 1
    return '\n'.join(lines) + '\nint main(void) {\n' + '\n'.join(body) + '\nreturn 0;\n}\n', owners


def type_observations(k, ty, lines, body, owners, tag):
    name = 'T%d' % k
    ty.tag = name
    text = ty.body()
    # the tag may have been declared before (incomplete) and attributes may stand after the closing brace
    m = re.match(r'(struct|union)( __attribute__\(\(.*?\)\))? (T\d+) \{', text)
    if m and k % 4 in (2, 3) and m.group(2):
        text = '%s %s {' % (m.group(1), m.group(3)) + text[m.end():] + m.group(2)
    if k % 4 in (1, 3):
        lines.append(['%s %s;' % (ty.kind, name), 'typedef %s %s %s_t;' % (ty.kind, name, name), '%s %s *fwd_%s(%s %s *);' % (ty.kind, name, name, ty.kind, name),
                      'extern %s %s ext_%s;' % (ty.kind, name, name)][(k // 4) % 4])
    lines.append(text + ';')
    kw = ty.kind + ' ' + name
    feats = '+'.join(sorted(f for f in ty.features() if not f.startswith('scalar:')))
    key = 'C08|layout|%s%s' % (tag, feats)
    body.append('OUTV(%d, sizeof(%s)); OUTV(%d, _Alignof(%s));' % (k, kw, k, kw))
    owners += [(key + '|size', name), (key + '|align', name)]
    paths = []
    ctype.offset_paths(ty, '', paths)
    for p in paths[:40]:
        body.append('OUTV(%d, __builtin_offsetof(%s, %s));' % (k, kw, p) if False else 'OUTV(%d, (long)&((%s *)0)->%s);' % (k, kw, p))
        owners.append((key + '|offset', '%s.%s' % (name, p)))
    lv = []
    ctype.leaves(ty, 'x', lv)
    bf = [l for l in lv if l[2] is not None]
    nb = 'sizeof x' if not ty.flexible else 'sizeof x'
    for (path, s, bits) in bf[:24]:
        body.append('{ %s x; memset(&x, 0, sizeof x); %s = -1; OUT(%d, &x, sizeof x); }' % (kw, path, k))
        owners.append((key + '|bitpos', path))
    # one whole-object image with every scalar leaf set to a distinct value: catches overlapping members
    if not ty.flexible and lv:
        st = []
        for j, (path, s, bits) in enumerate(lv[:60]):
            if s in ('f32', 'f64', 'f80'):
                st.append('%s = %d;' % (path, j + 1))
            elif s == 'ptr':
                st.append('%s = (char *)%d;' % (path, j + 1))
            elif ty.kind == 'union':
                continue
            else:
                st.append('%s = %d;' % (path, (j + 1) & 1 if s == 'bool' or bits == 1 else (j + 1) % (1 << min(bits or 7, 7))))
        if ty.kind != 'union' and not has_union(ty):
            body.append('{ %s x; memset(&x, 0, sizeof x); %s OUT(%d, &x, sizeof x); }' % (kw, ' '.join(st), k))
            owners.append((key + '|image', name))


def has_union(ty):
    if isinstance(ty, ctype.Agg):
        return ty.kind == 'union' or any(has_union(m.ty) for m in ty.members)
    if isinstance(ty, ctype.Array):
        return has_union(ty.elem)
    return False


def has_f80(ty):
    if isinstance(ty, ctype.Agg):
        return any(has_f80(m.ty) for m in ty.members)
    if isinstance(ty, ctype.Array):
        return has_f80(ty.elem)
    return ty.s == 'f80'


def gen_declarator(rng, depth):
    """-> (type-name text builder, size or None)"""
    base = rng.choice([('char', 1), ('short', 2), ('int', 4), ('long', 8), ('double', 8), ('long double', 16), ('struct { char a; int b; }', 8), ('_Bool', 1)])
    # build from the inside out: list of derivations applied to the identifier position
    kind = 'obj'
    size = base[1]
    inner = ''   # declarator text around the (absent) identifier
    derivs = []
    for _ in range(rng.randrange(0, depth + 1)):
        c = rng.choice(['ptr', 'arr', 'fn'])
        derivs.append((c, rng.randrange(1, 5)))
    # derivations listed from the type outward-in: apply in reverse to compute size, forward to build text
    # type = base; for d in derivs: type = d(type)
    txt = ''
    cur_kind = 'obj'
    cur_size = base[1]
    for (c, n) in derivs:
        if c == 'ptr':
            cur_kind, cur_size = 'obj', 8
        elif c == 'arr':
            if cur_kind == 'fn':
                return None
            cur_size = cur_size * n
        else:
            if cur_kind == 'fn':
                return None
            # function returning array is invalid
            cur_kind = 'fn'
        derivs_ok = True
    # text: build abstract declarator by wrapping
    d = ''
    prev = None
    for (c, n) in reversed(derivs):
        pass
    # simpler: construct with typedef chain to avoid precedence handling
    return None


def declarator_cases(rng, n):
    """Declarators through explicit syntax; sizes from a small model. Returns list of (typename text, expected size)."""
    fixed = [
        ('int *', 8), ('int *[3]', 24), ('int (*)[3]', 8), ('int (*[2])[3]', 16), ('int (*)(void)', 8), ('int (*[4])(int, char)', 32),
        ('char (*(*)(void))[5]', 8), ('char [3][4]', 12), ('char [2][3][4]', 24), ('long (*[2][2])(long)', 32), ('int (**)[7]', 8),
        ('struct { char a; long b; } [3]', 48), ('union { char a[5]; int b; } [2]', 16), ('short [5]', 10), ('long double [2]', 32),
        ('double *[2][3]', 48), ('void (*(*[3])(int))(char)', 24), ('int (*(*)[2])[3]', 8), ('char (*[2])[6]', 16), ('_Bool [7]', 7),
        ('int const *volatile', 8), ('char *const [4]', 32), ('unsigned char [3][1]', 3), ('int ((*))', 8), ('int (*(*(*)(void))(int))[4]', 8),
    ]
    res = list(fixed)
    bases = [('char', 1), ('short', 2), ('int', 4), ('long', 8), ('double', 8), ('float', 4)]
    for _ in range(n):
        b, sz = rng.choice(bases)
        dims = [rng.randrange(1, 5) for _ in range(rng.randrange(1, 4))]
        if rng.random() < 0.5:
            total = sz
            for d in dims:
                total *= d
            res.append(('%s %s' % (b, ''.join('[%d]' % d for d in dims)), total))
        else:
            total = 8
            for d in dims:
                total *= d
            inner = ''.join('[%d]' % d for d in dims)
            res.append(('%s (*%s)[%d]' % (b, inner, rng.randrange(1, 9)), total))
    return res


def run_tu(a):
    (idx, cc, work, src) = a
    p = os.path.join(work, 'tu%d.c' % idx)
    open(p, 'w').write(src)
    res = {k: core.build_and_run(k, cc, p, work, 'tu%d' % idx, timeout=60) for k in ('chibicc', 'gcc', 'clang')}
    os.unlink(p)
    return idx, res


HEADER_TYPES = r'''
#include <stddef.h>
#include <stdarg.h>
#include <stdbool.h>
#include <stdalign.h>
#include <stdnoreturn.h>
#include <stdatomic.h>
#include <stdio.h>
#define SA(T) printf(#T " | size=%d align=%d\n", (int)sizeof(T), (int)_Alignof(T))
#define SG(T) printf("signed:" #T " | %d\n", (T)-1 < (T)0)
#define VI(M) printf(#M " | %lld\n", (long long)(M))
struct with_max { char c; max_align_t m; char d; }; struct with_va { char c; va_list v; }; struct with_flag { char c; atomic_flag f; atomic_long l; };
int main(void) {
  SA(size_t); SA(ptrdiff_t); SA(wchar_t); SA(max_align_t); SA(va_list); SA(bool); SA(atomic_flag); SA(atomic_int); SA(atomic_long); SA(atomic_bool); SA(atomic_char); SA(atomic_short);
  SA(atomic_uintptr_t); SA(atomic_size_t); SA(atomic_llong); SA(atomic_ullong); SA(atomic_intmax_t); SA(atomic_ptrdiff_t);
  SA(atomic_schar); SA(atomic_uchar); SA(atomic_ushort); SA(atomic_uint); SA(atomic_ulong); SA(atomic_char16_t); SA(atomic_char32_t); SA(atomic_wchar_t); SA(atomic_int_least8_t); SA(atomic_uint_least8_t); SA(atomic_int_least16_t); SA(atomic_uint_least16_t);
  SA(atomic_int_least32_t); SA(atomic_uint_least32_t); SA(atomic_int_least64_t); SA(atomic_uint_least64_t); SA(atomic_int_fast8_t); SA(atomic_uint_fast8_t); SA(atomic_int_fast16_t); SA(atomic_uint_fast16_t); SA(atomic_int_fast32_t); SA(atomic_uint_fast32_t);
  SA(atomic_int_fast64_t); SA(atomic_uint_fast64_t); SA(atomic_intptr_t); SA(atomic_uintmax_t);
  { atomic_wchar_t w = -1; atomic_int_fast16_t f16 = -1; atomic_uint_fast32_t uf32 = -1; atomic_char16_t c16 = -1; atomic_char32_t c32 = -1; atomic_schar sc = -1; atomic_char pc = -1; VI(w < 0); VI(f16 < 0); VI(uf32 > 0); VI(c16 > 0); VI(c32 > 0); VI(sc < 0); VI(pc < 0); VI(sizeof(w + 0)); VI(sizeof(f16 + 0)); } SA(memory_order); SA(struct with_max); SA(struct with_va); SA(struct with_flag);
  SG(size_t); SG(ptrdiff_t); SG(wchar_t); SG(bool);
  VI(true); VI(false); VI(__bool_true_false_are_defined); VI(__alignas_is_defined); VI(__alignof_is_defined); VI(sizeof(NULL)); VI(offsetof(struct with_max, m)); VI(offsetof(struct with_max, d));
  VI(offsetof(struct with_va, v)); VI(offsetof(struct with_flag, l)); VI(sizeof(offsetof(struct with_va, v))); VI(alignof(max_align_t)); VI(sizeof(true)); VI((size_t)-1 > 0); VI(sizeof((char *)0 - (char *)0));
  { int n = 3, m = 2; VI(_Alignof(char[n][m])); VI(_Alignof(long double[m][n])); VI(_Alignof(short[n])); VI(_Alignof(int[2][n])); VI(_Alignof(char[n][m][n])); VI(sizeof(char[n][m])); char v3[n][m][n]; VI(_Alignof(v3)); VI(_Alignof(v3[0])); }
  { enum e1 { e1a = -1, e1b }; enum e2 { e2a, e2b }; enum e3 { e3a = -2 }; enum e4 { e4a = 1, e4b = -1 }; enum e5 { e5a = -1 }; enum e6 { e6a, e6b = -1, e6c };
    struct { enum e1 a : 2; enum e2 b : 2; enum e3 c : 3; enum e4 d : 2; enum e5 e : 1; enum e6 f : 2; } eb = { -1, 3, -2, -1, -1, -1 };
    VI((enum e1)-1 < 0); VI((enum e2)-1 < 0); VI((enum e3)-1 < 0); VI((enum e4)-1 < 0); VI((enum e5)-1 < 0); VI((enum e6)-1 < 0); VI(eb.a); VI(eb.b); VI(eb.c); VI(eb.d); VI(eb.e); VI(eb.f);
    enum e1 v1 = e1a; enum e5 v5 = e5a; enum e6 v6 = e6b; VI((long)v1); VI((long)v5); VI((long)v6); VI(sizeof(enum e1)); VI(_Alignof(enum e3)); }
  VI(memory_order_relaxed); VI(memory_order_consume); VI(memory_order_acquire); VI(memory_order_release); VI(memory_order_acq_rel); VI(memory_order_seq_cst);
  return 0;
}
'''


def run(ctx):
    cc = ctx.build('plain')
    work = ctx.tmpdir('c08')
    rng = ctx.rng
    # the types the compiler's own headers define are shared with other compilers' objects like any other type
    core.header_probe(ctx, cc, work, 'header_types', HEADER_TYPES, 'C08|header|%s')
    ctx.rule = ('specifier spellings: every permutation of every valid C11 specifier multiset (plus a qualified variant); layouts: random aggregates, '
                'each observed by sizeof/_Alignof/offset of every member designator/one bit image per bit-field/one whole-object image; declarators via sizeof; '
                'distinct = distinct spellings + distinct aggregate feature sets + declarators')
    ctx.assumptions += ['oracle: gcc -O0 == clang -O0 (psABI); cases where they differ are discarded and counted',
                        'packed structs containing bit-fields are generated only in the dedicated probe of the open finding']
    tus = []
    # (1) specifier spellings
    sp = spellings(rng)
    owners = [('C08|spec|' + ' '.join(sorted(ms)), text) for (text, ms) in sp]
    tus.append((spec_program(sp), owners, 'spec'))
    ctx.count('specifier_spellings', len(sp))
    for text, ms in sp:
        ctx.saw('spec:' + text)
    for _ in range(ctx.scale(3, 30)):
        src, nown = names_program(rng)
        tus.append((src, nown, 'names'))
        for o in nown:
            ctx.saw(o[0])
    # (2) aggregates
    ntypes = ctx.scale(6000, 80000)
    per = 35
    variants = [
        dict(tag='', packed=False),
        dict(tag='', packed=False, bitfields=False, flex=True),
        dict(tag='packed-nobitfield:', packed=True, bitfields=False),
        dict(tag='packed-zerowidth:', packed=True, bitfields=False, zw_alone=True),
        dict(tag='zerowidth-alone:', packed=False, bitfields=False, zw_alone=True),
    ]
    k = 0
    while k < ntypes:
        lines = ['#include "vrt.h"', 'void *memset(void *, int, unsigned long);']
        body, owners = [], []
        for j in range(per):
            v = variants[(k // per) % len(variants)] if rng.random() < 0.5 else variants[0]
            opts = {kk: vv for kk, vv in v.items() if kk != 'tag'}
            g = ctype.Gen(rng, max_depth=rng.choice([1, 2, 3]), max_members=rng.choice([2, 4, 6, 8]), **opts)
            ty = g.agg(0)
            if v['tag'].startswith('packed'):
                ty.packed = True
            type_observations(k, ty, lines, body, owners, v['tag'])
            ctx.saw('agg:' + '+'.join(sorted(ty.features())))
            k += 1
        src = '\n'.join(lines) + '\nint main(void) {\n' + '\n'.join(body) + '\nreturn 0;\n}\n'
        tus.append((src, owners, 'layout'))
    # dedicated probe of the open finding: packed struct with bit-fields that straddle storage units
    lines = ['#include "vrt.h"', 'void *memset(void *, int, unsigned long);',
             'struct __attribute__((packed)) PB0 { char a; int b:20; char c; };', 'struct __attribute__((packed)) PB1 { short a:9; long b:40; int c:17; };']
    body = ['OUTV(0, sizeof(struct PB0)); { struct PB0 x; memset(&x, 0, sizeof x); x.b = -1; OUT(0, &x, sizeof x); }',
            'OUTV(1, sizeof(struct PB1)); { struct PB1 x; memset(&x, 0, sizeof x); x.b = -1; OUT(1, &x, sizeof x); }']
    owners = [('C08|layout|packed-bitfield-straddle|size', 'PB0'), ('C08|layout|packed-bitfield-straddle|bitpos', 'PB0.b'),
              ('C08|layout|packed-bitfield-straddle|size', 'PB1'), ('C08|layout|packed-bitfield-straddle|bitpos', 'PB1.b')]
    tus.append(('\n'.join(lines) + '\nint main(void) {\n' + '\n'.join(body) + '\nreturn 0;\n}\n', owners, 'probe'))
    # (3) declarators
    dc = declarator_cases(rng, ctx.scale(150, 3000))
    body = ['OUTV(%d, sizeof(%s));' % (i, t) for i, (t, sz) in enumerate(dc)]
    owners = [('C08|declarator|sizeof', t) for (t, sz) in dc]
    tus.append(('#include "vrt.h"\nint main(void) {\n' + '\n'.join(body) + '\nreturn 0;\n}\n', owners, 'decl'))
    for t, sz in dc:
        ctx.saw('decl:' + t)

    results = core.pmap(run_tu, [(i, cc, work, t[0]) for i, t in enumerate(tus)])
    amb = 0
    for idx, res in results:
        src, owners, what = tus[idx]
        g, c, x = res['gcc'], res['clang'], res['chibicc']
        if g['stage'] != 'run' or c['stage'] != 'run' or g['rc'] != 0 or c['rc'] != 0:
            raise core.Inconclusive('reference failed on a generated %s TU: %s' % (what, (g['err'] + c['err']).decode('utf-8', 'replace')[-500:]))
        files = {'tu.c': src}
        script = ('$CHIBICC -I$VERIF/rt -c -o tu.o tu.c && gcc -o tu.exe tu.o $RT && ./tu.exe > got.txt; gcc -w -I$VERIF/rt -o ref.exe tu.c $RT && ./ref.exe > ref.txt; '
                  'cmp -s got.txt ref.txt && exit 0; diff got.txt ref.txt | head; exit 1')
        if x['stage'] != 'run' or x['rc'] != 0:
            ctx.violation('C08|%s|tu-%s-fail' % (what, x['stage']), 'chibicc failed (%s rc=%s) on a TU accepted by gcc and clang: %s' %
                          (x['stage'], x['rc'], core.first_line(x['err'].decode('utf-8', 'replace'))), files=files, script=script)
            continue
        lg, lc, lx = [r['out'].decode().split('\n')[:-1] for r in (g, c, x)]
        if len(lg) != len(owners) or len(lc) != len(owners):
            raise core.Inconclusive('reference printed %d/%d lines, expected %d' % (len(lg), len(lc), len(owners)))
        ctx.evaluations += len(owners)
        ctx.count('observations', len(owners))
        if len(lx) != len(owners):
            ctx.violation('C08|%s|output-shape' % what, 'chibicc build printed %d lines, expected %d' % (len(lx), len(owners)), files=files, script=script)
            continue
        for ln, (key, desc) in enumerate(owners):
            if lg[ln] != lc[ln]:
                amb += 1
                continue
            if lx[ln] != lg[ln]:
                ctx.violation(key, '%s: chibicc %s, gcc = clang %s' % (desc, lx[ln], lg[ln]), files=files, script=script)
    ctx.count('reference_ambiguous', amb)
    if amb > 0.02 * max(1, ctx.counts.get('observations', 1)):
        ctx.note_inconclusive('gcc and clang disagree on %d observations' % amb)
    ctx.sample({'spelling': sp[7][0], 'aggregate_tu_excerpt': tus[1][0][:700]})
    ctx.extra['exhaustive_subspaces'] = ['all permutations of all 31 valid C11 type-specifier multisets (%d spellings incl. qualified variants)' % len(sp)]
