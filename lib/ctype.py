"""Random C object types (scalars, arrays, structs, unions, bit-fields, attributes) shared by C04, C05, C08.

A type is a tree of Ty nodes; helpers produce C declarations, enumerate scalar leaves with their access paths and
generate valid initializers (C05)."""
from lib import cint

SCALARS = ['bool', 'i8', 'u8', 'i16', 'u16', 'i32', 'u32', 'i64', 'u64', 'f32', 'f64', 'f80', 'ptr']
CNAME = {'f32': 'float', 'f64': 'double', 'f80': 'long double', 'ptr': 'char *'}
SIZE = {'f32': 4, 'f64': 8, 'f80': 16, 'ptr': 8}


def scalar_cname(s):
    return CNAME.get(s) or cint.cname(s)


def scalar_size(s):
    return SIZE.get(s) or cint.sizeof(s)


class Ty:
    pass


class Scalar(Ty):
    def __init__(self, s):
        self.s = s

    def spec(self):
        return scalar_cname(self.s)

    def features(self):
        return {'scalar:' + self.s}


class Array(Ty):
    def __init__(self, elem, n):
        self.elem, self.n = elem, n

    def features(self):
        return {'array'} | self.elem.features()


class Member:
    def __init__(self, name, ty, bits=None, alignas=None):
        self.name, self.ty, self.bits, self.alignas = name, ty, bits, alignas


class Agg(Ty):
    def __init__(self, kind, members, packed=False, aligned=None, flexible=False, tag=None):
        self.kind, self.members, self.packed, self.aligned, self.flexible, self.tag = kind, members, packed, aligned, flexible, tag

    def features(self):
        f = {self.kind}
        if self.packed:
            f.add('packed')
        if self.aligned:
            f.add('aligned')
        if self.flexible:
            f.add('flex')
        for m in self.members:
            if m.bits is not None:
                f.add('bitfield:' + m.ty.s)
                if m.bits == 0:
                    f.add('zero-width')
                if m.name is None:
                    f.add('unnamed-bitfield')
            if m.alignas:
                f.add('alignas')
            if m.name is None and m.bits is None:
                f.add('anonymous-member')
            f |= m.ty.features()
        return f

    def body(self, ind=''):
        out = []
        for m in self.members:
            al = '_Alignas(%s) ' % (getattr(m, 'alignas_text', None) or m.alignas) if m.alignas else ''
            if m.bits is not None:
                out.append('%s  %s%s %s: %d;' % (ind, al, m.ty.spec(), m.name or '', m.bits))
            elif m.name is None:
                out.append('%s  %s;' % (ind, typespec(m.ty, ind + '  ')))
            else:
                out.append('%s  %s%s;' % (ind, al, declare(m.ty, m.name, ind + '  ')))
        attrs = []
        if self.packed:
            attrs.append('packed')
        if self.aligned:
            attrs.append('aligned(%d)' % self.aligned)
        a = ' __attribute__((%s))' % ', '.join(attrs) if attrs else ''
        return '%s%s%s {\n%s\n%s}' % (self.kind, a, ' ' + self.tag if self.tag else '', '\n'.join(out), ind)

    def spec(self):
        return self.body()


def typespec(ty, ind=''):
    if isinstance(ty, Agg):
        return ty.body(ind)
    return ty.spec()


def declare(ty, name, ind=''):
    dims = ''
    while isinstance(ty, Array):
        dims += '[%s]' % ('' if ty.n is None else ty.n)
        ty = ty.elem
    return '%s %s%s' % (typespec(ty, ind), name, dims)


class Gen:
    def __init__(self, rng, bitfields=True, packed=False, aligned=True, fp=True, flex=False, max_depth=3, max_members=6, unions=True,
                 anon=True, zero_width=True, ldouble=True, alignas=True, unnamed_bf=True, zw_alone=False):
        self.rng = rng
        self.o = dict(bitfields=bitfields, packed=packed, aligned=aligned, fp=fp, flex=flex, unions=unions, anon=anon, zero_width=zero_width,
                      ldouble=ldouble, alignas=alignas, unnamed_bf=unnamed_bf, zw_alone=zw_alone)
        self.max_depth, self.max_members = max_depth, max_members
        self.n = 0

    def name(self):
        # numbers come in random order so that a member name is often a proper prefix of one declared *earlier*
        # (m1 after m12): member lookup must compare whole identifiers
        if not getattr(self, 'pool', None):
            self.base = getattr(self, 'base', -130) + 130
            self.pool = self.rng.sample(range(self.base + 1, self.base + 131), 130)
        self.n += 1
        return 'm%d' % self.pool.pop()

    def scalar(self):
        r = self.rng
        pool = ['bool', 'i8', 'u8', 'i16', 'u16', 'i32', 'u32', 'i64', 'u64']
        if self.o['fp']:
            pool += ['f32', 'f64', 'ptr'] + (['f80'] if self.o['ldouble'] else [])
        return Scalar(r.choice(pool))

    def ty(self, depth):
        r = self.rng
        x = r.random()
        if depth >= self.max_depth or x < 0.45:
            return self.scalar()
        if x < 0.62:
            return Array(self.ty(depth + 1), r.choice([1, 2, 3, 4]))
        return self.agg(depth + 1)

    def agg(self, depth=0, kind=None):
        r = self.rng
        kind = kind or ('union' if (self.o['unions'] and r.random() < 0.25) else 'struct')
        ms = []
        for i in range(r.randrange(1, self.max_members + 1)):
            x = r.random()
            if self.o['bitfields'] and x < 0.3 and (kind == 'struct' or r.random() < 0.6):
                base = r.choice(['i8', 'u8', 'i16', 'u16', 'i32', 'u32', 'i64', 'u64', 'bool'])
                w = 8 * cint.sizeof(base) if base != 'bool' else 1
                if self.o['zero_width'] and r.random() < 0.08:
                    ms.append(Member(None, Scalar(base), 0))
                elif r.random() < 0.1 and self.o['unnamed_bf']:
                    ms.append(Member(None, Scalar(base), r.randrange(1, w + 1)))
                else:
                    ms.append(Member(self.name(), Scalar(base), r.choice([1, 1, 2, 3, 5, 7, 8, 9, 15, 16, 17, 31, 32, 33, 63, 64, r.randrange(1, 65)]) % w + 1 if base != 'bool' else 1))
                continue
            if self.o['zw_alone'] and not self.o['bitfields'] and kind == 'struct' and r.random() < 0.25:
                # a zero-width bit-field on its own (no other bit-fields): only closes the current unit of its declared type
                ms.append(Member(None, Scalar(r.choice(['i8', 'i16', 'u16', 'i32', 'u32', 'i64', 'u64'])), 0))
            if self.o['anon'] and x < 0.38 and depth < self.max_depth:
                ms.append(Member(None, self.agg(depth + 1)))
                continue
            t = self.ty(depth)
            al = None
            if self.o['alignas'] and r.random() < 0.06 and scalar_based(t):
                al = r.choice([1, 2, 4, 8, 16, 32])
                if al < base_align(t):
                    al = None
            mem = Member(self.name(), t, None, al)
            if al:
                # the same alignment spelled as a constant, a constant expression or a type-name whose size differs from its alignment
                forms = {1: ['char', 'char [7]', 'struct { char c[3]; }'], 2: ['short', 'short [5]', 'struct { char c; short s; char d; }'],
                         4: ['int', 'int [4]', 'float [3]', 'struct { char c; int i; }'], 8: ['long', 'double [3]', 'void *', 'struct { char c; long l; int z; }'],
                         16: ['long double', 'long double [2]', 'struct { long double x; char c; }']}.get(al, [])
                mem.alignas_text = r.choice([str(al), str(al), '%d << %d' % (1, al.bit_length() - 1), 'sizeof(char [%d])' % al] + forms)
            ms.append(mem)
        if not any(m.name or (m.bits is None) for m in ms):
            ms.append(Member(self.name(), self.scalar()))
        a = Agg(kind, ms)
        if self.o['packed'] and r.random() < 0.2:
            a.packed = True
        if self.o['aligned'] and r.random() < 0.08:
            a.aligned = r.choice([2, 4, 8, 16, 32])
        if self.o['flex'] and kind == 'struct' and depth == 0 and r.random() < 0.15 and any(m.bits is None and m.name for m in ms):
            a.members.append(Member(self.name(), Array(Scalar(r.choice(['i8', 'i32', 'i64', 'u16'])), None)))
            a.flexible = True
        return a


def scalar_based(t):
    while isinstance(t, Array):
        t = t.elem
    return isinstance(t, Scalar)


def base_align(t):
    while isinstance(t, Array):
        t = t.elem
    if isinstance(t, Scalar):
        return scalar_size(t.s)
    return 1


def leaves(ty, path, out, limit=400):
    """Enumerate scalar leaves: (access path, scalar name, bit width or None)."""
    if len(out) >= limit:
        return
    if isinstance(ty, Scalar):
        out.append((path, ty.s, None))
    elif isinstance(ty, Array):
        if ty.n is None:
            return
        for i in range(ty.n):
            leaves(ty.elem, '%s[%d]' % (path, i), out, limit)
    else:
        for m in ty.members:
            if m.bits is not None:
                if m.name:
                    out.append(('%s.%s' % (path, m.name), m.ty.s, m.bits))
                continue
            if m.name is None:
                leaves(m.ty, path, out, limit)       # anonymous member: names visible in the enclosing aggregate
            else:
                leaves(m.ty, '%s.%s' % (path, m.name), out, limit)


def offset_paths(ty, path, out, depth=0):
    """Member designators usable in offsetof (no bit-fields)."""
    if isinstance(ty, Agg):
        for m in ty.members:
            if m.bits is not None:
                continue
            if m.name is None:
                offset_paths(m.ty, path, out, depth)
                continue
            p = (path + '.' if path else '') + m.name
            if isinstance(m.ty, Array) and m.ty.n is None:
                out.append(p)
                continue
            out.append(p)
            t = m.ty
            if isinstance(t, Array):
                out.append('%s[%d]' % (p, t.n - 1))
                t = t.elem
                q = '%s[%d]' % (p, 0)
                if isinstance(t, Agg) and depth < 2:
                    offset_paths(t, q, out, depth + 1)
            elif isinstance(t, Agg) and depth < 3:
                offset_paths(t, p, out, depth + 1)
