"""C11 integer typing/value model for the LP64 x86-64 ABI, plus expression rendering.

Types: bool i8 i16 i32 i64 u8 u16 u32 u64.  A value is (type, python int).
eval_expr raises Undefined when C11 leaves the operation undefined, so generators only emit defined code.
Implementation-defined behaviour that gcc, clang and the psABI agree on is modelled: arithmetic >> on negative
values, modular conversion to signed types."""

TYPES = {
    'bool': ('_Bool', 1, False), 'i8': ('char', 8, True), 'i16': ('short', 16, True), 'i32': ('int', 32, True),
    'i64': ('long', 64, True), 'u8': ('unsigned char', 8, False), 'u16': ('unsigned short', 16, False),
    'u32': ('unsigned int', 32, False), 'u64': ('unsigned long', 64, False),
}
ALL = ['bool', 'i8', 'i16', 'i32', 'i64', 'u8', 'u16', 'u32', 'u64']
RANK = {'bool': 0, 'i8': 1, 'u8': 1, 'i16': 2, 'u16': 2, 'i32': 3, 'u32': 3, 'i64': 4, 'u64': 4}


class Undefined(Exception):
    pass


def cname(t):
    return TYPES[t][0]


def bits(t):
    return TYPES[t][1]


def signed(t):
    return TYPES[t][2]


def sizeof(t):
    return 1 if t == 'bool' else bits(t) // 8


def tmin(t):
    return -(1 << (bits(t) - 1)) if signed(t) else 0


def tmax(t):
    if t == 'bool':
        return 1
    return (1 << (bits(t) - 1)) - 1 if signed(t) else (1 << bits(t)) - 1


def inrange(t, v):
    return tmin(t) <= v <= tmax(t)


def convert(t, v):
    """Conversion of an integer value to type t (C11 6.3.1.2/6.3.1.3; signed: modular, as gcc/clang)."""
    if t == 'bool':
        return 1 if v != 0 else 0
    b = bits(t)
    v &= (1 << b) - 1
    if signed(t) and v >> (b - 1):
        v -= 1 << b
    return v


def promote(t):
    return 'i32' if RANK[t] < 3 else t


def uac(t1, t2):
    t1, t2 = promote(t1), promote(t2)
    if t1 == t2:
        return t1
    if signed(t1) == signed(t2):
        return t1 if RANK[t1] > RANK[t2] else t2
    s, u = (t1, t2) if signed(t1) else (t2, t1)
    if RANK[u] >= RANK[s]:
        return u
    return s   # i64 can represent all u32 values


def to_bytes(t, v):
    n = sizeof(t)
    return (v & ((1 << (8 * n)) - 1)).to_bytes(n, 'little')


def boundary_values(t):
    if t == 'bool':
        return [0, 1]
    b = bits(t)
    vs = {0, 1, 2, 3, 5, 7, tmax(t), tmax(t) - 1, tmax(t) // 2, tmin(t), tmin(t) + 1}
    if signed(t):
        vs |= {-1, -2, -3, -7}
    for k in (7, 8, 15, 16, 31, 32, 63):
        for d in (-1, 0, 1):
            v = (1 << k) + d
            if inrange(t, v):
                vs.add(v)
            if inrange(t, -v):
                vs.add(-v)
    return sorted(vs)


# ---------------------------------------------------------------- expressions
# ('leaf', ctext, type, value)
# ('un', op, e)        op in - + ~ !
# ('bin', op, a, b)    op in + - * / % & | ^ << >> < <= > >= == !=
# ('land', a, b) ('lor', a, b) ('cond', c, a, b) ('comma', a, b) ('cast', type, e)

def leaf(ctext, t, v):
    return ('leaf', ctext, t, v)


def ev(e):
    k = e[0]
    if k == 'leaf':
        return e[2], e[3]
    if k == 'cast':
        t, v = ev(e[2])
        return e[1], convert(e[1], v)
    if k == 'un':
        op = e[1]
        t, v = ev(e[2])
        if op == '!':
            return 'i32', int(v == 0)
        pt = promote(t)
        v = convert(pt, v)
        if op == '+':
            return pt, v
        if op == '-':
            r = -v
            if signed(pt):
                if not inrange(pt, r):
                    raise Undefined('neg overflow')
                return pt, r
            return pt, convert(pt, r)
        if op == '~':
            return pt, convert(pt, ~v)
    if k == 'bin':
        op = e[1]
        t1, v1 = ev(e[2])
        t2, v2 = ev(e[3])
        if op in ('<<', '>>'):
            pt = promote(t1)
            a = convert(pt, v1)
            c = convert(promote(t2), v2)
            if c < 0 or c >= bits(pt):
                raise Undefined('shift count')
            if op == '<<':
                if signed(pt):
                    if a < 0 or not inrange(pt, a << c):
                        raise Undefined('signed shl')
                    return pt, a << c
                return pt, convert(pt, a << c)
            return pt, a >> c          # arithmetic for negative signed (gcc/clang/psABI)
        ct = uac(t1, t2)
        a, b = convert(ct, v1), convert(ct, v2)
        if op in ('<', '<=', '>', '>=', '==', '!='):
            r = {'<': a < b, '<=': a <= b, '>': a > b, '>=': a >= b, '==': a == b, '!=': a != b}[op]
            return 'i32', int(r)
        if op in ('&', '|', '^'):
            r = {'&': a & b, '|': a | b, '^': a ^ b}[op]
            return ct, convert(ct, r)
        if op in ('/', '%'):
            if b == 0:
                raise Undefined('div0')
            q = abs(a) // abs(b)
            if (a < 0) != (b < 0):
                q = -q
            if signed(ct) and not inrange(ct, q):
                raise Undefined('div overflow')
            r = q if op == '/' else a - q * b
            return ct, r
        r = {'+': a + b, '-': a - b, '*': a * b}[op]
        if signed(ct):
            if not inrange(ct, r):
                raise Undefined('signed overflow')
            return ct, r
        return ct, convert(ct, r)
    if k == 'land':
        t1, v1 = ev(e[1])
        if v1 == 0:
            return 'i32', 0
        t2, v2 = ev(e[2])
        return 'i32', int(v2 != 0)
    if k == 'lor':
        t1, v1 = ev(e[1])
        if v1 != 0:
            return 'i32', 1
        t2, v2 = ev(e[2])
        return 'i32', int(v2 != 0)
    if k == 'cond':
        tc, vc = ev(e[1])
        # type from both arms (both must be typable); only the selected arm is evaluated
        ta = typeof(e[2])
        tb = typeof(e[3])
        ct = uac(ta, tb)
        t, v = ev(e[2] if vc != 0 else e[3])
        return ct, convert(ct, v)
    if k == 'comma':
        ev(e[1])
        return ev(e[2])
    raise ValueError(e)


def typeof(e):
    k = e[0]
    if k == 'leaf':
        return e[2]
    if k == 'cast':
        return e[1]
    if k == 'un':
        return 'i32' if e[1] == '!' else promote(typeof(e[2]))
    if k == 'bin':
        op = e[1]
        if op in ('<<', '>>'):
            return promote(typeof(e[2]))
        if op in ('<', '<=', '>', '>=', '==', '!='):
            return 'i32'
        return uac(typeof(e[2]), typeof(e[3]))
    if k in ('land', 'lor'):
        return 'i32'
    if k == 'cond':
        return uac(typeof(e[2]), typeof(e[3]))
    if k == 'comma':
        return typeof(e[2])
    raise ValueError(e)


def render(e):
    k = e[0]
    if k == 'leaf':
        return e[1]
    if k == 'cast':
        return '((%s)%s)' % (cname(e[1]), render(e[2]))
    if k == 'un':
        return '(%s %s)' % (e[1], render(e[2]))
    if k == 'bin':
        return '(%s %s %s)' % (render(e[2]), e[1], render(e[3]))
    if k == 'land':
        return '(%s && %s)' % (render(e[1]), render(e[2]))
    if k == 'lor':
        return '(%s || %s)' % (render(e[1]), render(e[2]))
    if k == 'cond':
        return '(%s ? %s : %s)' % (render(e[1]), render(e[2]), render(e[3]))
    if k == 'comma':
        return '(%s , %s)' % (render(e[1]), render(e[2]))
    raise ValueError(e)


BINOPS = ['+', '-', '*', '/', '%', '&', '|', '^', '<<', '>>', '<', '<=', '>', '>=', '==', '!=']
UNOPS = ['-', '+', '~', '!']


def literal(rng):
    """A random integer literal with its C11 type (decimal/hex/octal, suffixes)."""
    kind = rng.randrange(6)
    mag = rng.choice([0, 1, 2, 7, 100, 255, 256, 32767, 65535, 65536, 2147483647, 2147483648, 4294967295,
                      4294967296, 9223372036854775807, 9223372036854775808, 18446744073709551615,
                      rng.randrange(0, 1 << rng.choice([4, 8, 16, 31, 32, 33, 63, 64]))])
    base = rng.choice(['d', 'x', 'o'])
    suf = rng.choice(['', '', '', 'u', 'l', 'ul', 'U', 'L', 'LL', 'uLL', 'lu'])
    u = 'u' in suf.lower()
    l = 'l' in suf.lower()
    if base == 'd':
        cands = (['u64'] if (u and l) else ['i64'] if l else ['u32', 'u64'] if u else ['i32', 'i64'])
    else:
        cands = (['u64'] if (u and l) else ['i64', 'u64'] if l else ['u32', 'u64'] if u else ['i32', 'u32', 'i64', 'u64'])
    ty = None
    for c in cands:
        if inrange(c, mag):
            ty = c
            break
    if ty is None:
        return None
    text = {'d': '%d', 'x': '0x%x', 'o': '0%o'}[base] % mag
    if base == 'o' and mag == 0:
        text = '0'
    return leaf(text + suf, ty, mag)
