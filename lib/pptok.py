"""A small C preprocessing-token lexer used to compare preprocessor outputs and to mutate sources.

lex(text) -> list of Tok(kind, text, start, end, bol, space)
kinds: id num str chr punct other
"""
import re
from collections import namedtuple

Tok = namedtuple('Tok', 'kind text start end bol space')

PUNCTS = ['%:%:', '...', '<<=', '>>=', '->', '++', '--', '<<', '>>', '<=', '>=', '==', '!=', '&&', '||',
          '*=', '/=', '%=', '+=', '-=', '&=', '^=', '|=', '##', '<:', ':>', '<%', '%>', '%:',
          '[', ']', '(', ')', '{', '}', '.', '&', '*', '+', '-', '~', '!', '/', '%', '<', '>', '^', '|', '?', ':',
          ';', '=', ',', '#']
_punct_re = '|'.join(re.escape(p) for p in PUNCTS)
_tok_re = re.compile(r'''
   (?P<ws>[ \t\f\v\r]+|\\\n)
 | (?P<nl>\n)
 | (?P<lc>//[^\n]*)
 | (?P<bc>/\*.*?\*/)
 | (?P<str>(?:u8|u|U|L)?"(?:\\.|[^"\\\n])*")
 | (?P<chr>(?:u|U|L)?'(?:\\.|[^'\\\n])+')
 | (?P<num>\.?[0-9](?:[eEpP][+-]|[0-9A-Za-z_.])*)
 | (?P<id>[A-Za-z_$\u0080-\U0010ffff][A-Za-z_0-9$\u0080-\U0010ffff]*)
 | (?P<punct>%s)
 | (?P<other>.)
''' % _punct_re, re.X | re.S)


def lex(text, keep_digraphs=True):
    toks = []
    bol = True
    space = False
    for m in _tok_re.finditer(text):
        k = m.lastgroup
        if k == 'nl':
            bol = True
            space = False
            continue
        if k in ('ws', 'lc', 'bc'):
            space = True
            continue
        toks.append(Tok(k, m.group(), m.start(), m.end(), bol, space))
        bol = False
        space = False
    return toks


def spellings(text):
    """Token spellings of a preprocessed text, ignoring line markers (# 1 "file" ...)."""
    out = []
    for line in text.split('\n'):
        s = line.lstrip()
        if s.startswith('#'):
            # linemarker or #pragma left in -E output
            if re.match(r'#\s*(\d+|line)\b', s) or re.match(r'#\s*pragma\b', s):
                continue
        out.extend(t.text for t in lex(line))
    return out
