"""Common machinery for the chibicc runtime-monitoring checks (DESIGN.md section 2).

Everything here is stdlib-only.  A property module (props/Cnn.py) exposes

    def run(ctx):  ...            # drive workloads, call ctx.violation()/ctx.count()/ctx.sample()

and the driver (`/verif/check`) turns what the module observed into the exit code, the
VIOLATION / KNOWN-FINDING lines, the replay directories and evidence/<id>.json.
"""
import os, sys, json, time, shutil, subprocess, tempfile, hashlib, signal, random, fcntl, re
import multiprocessing, concurrent.futures

VERIF = os.path.dirname(os.path.dirname(os.path.abspath(__file__)))
REPO = os.environ.get('VERIF_REPO', '/repo')
NPROC = int(os.environ.get('VERIF_NPROC', '16'))
GUARD = 'CHIBICC_VERIF'
BASE_CFLAGS = '-std=c11 -g -fno-common -Wall -Wno-switch'
SAN_CFLAGS = ('-std=c11 -O1 -g -fno-omit-frame-pointer -fno-common -w '
              '-fsanitize=address,bounds,null,integer-divide-by-zero,unreachable,return,vla-bound '
              '-fno-sanitize-recover=all')
SAN_ENV = {'ASAN_OPTIONS': 'detect_leaks=0:strict_memcmp=0:abort_on_error=0:exitcode=77:allocator_may_return_null=1:detect_stack_use_after_return=0',
           'UBSAN_OPTIONS': 'print_stacktrace=1:halt_on_error=1:exitcode=77'}


class Inconclusive(Exception):
    pass


def sh(cmd, cwd=None, env=None, timeout=600, input=None, text=False):
    """Run a command (list), return (rc, stdout, stderr) as bytes (or str when text)."""
    e = None
    if env is not None:
        e = dict(os.environ)
        e.update(env)
    try:
        p = subprocess.run(cmd, cwd=cwd, env=e, input=input, stdout=subprocess.PIPE,
                           stderr=subprocess.PIPE, timeout=timeout)
        out, err, rc = p.stdout, p.stderr, p.returncode
    except subprocess.TimeoutExpired as ex:
        out, err, rc = ex.stdout or b'', ex.stderr or b'', 'timeout'
    if text:
        return rc, out.decode('utf-8', 'replace'), err.decode('utf-8', 'replace')
    return rc, out, err


def sha(s, n=10):
    if isinstance(s, str):
        s = s.encode()
    return hashlib.sha1(s).hexdigest()[:n]


# ---------------------------------------------------------------- runtime build
def ensure_rt():
    """Build the monitor runtime into /verif/build (idempotent, lock-protected)."""
    b = os.path.join(VERIF, 'build')
    os.makedirs(b, exist_ok=True)
    lock = open(os.path.join(b, '.lock'), 'w')
    fcntl.flock(lock, fcntl.LOCK_EX)
    try:
        jobs = [
            ('vrt.o', ['rt/vrt.c', 'rt/vrt.h'], ['gcc', '-O1', '-g', '-c', 'rt/vrt.c', '-o']),
            ('vrt_asm.o', ['rt/vrt_asm.S'], ['gcc', '-c', 'rt/vrt_asm.S', '-o']),
        ]
        extra = os.path.join(VERIF, 'rt', 'extra_builds.json')
        if os.path.exists(extra):
            for name, srcs, cmd in json.load(open(extra)):
                jobs.append((name, srcs, cmd))
        for name, srcs, cmd in jobs:
            out = os.path.join(b, name)
            newest = max(os.path.getmtime(os.path.join(VERIF, s)) for s in srcs)
            if not os.path.exists(out) or os.path.getmtime(out) < newest:
                rc, o, e = sh(cmd + [out + '.tmp'], cwd=VERIF)
                if rc != 0:
                    raise Inconclusive('runtime build failed: %s\n%s' % (name, e.decode()))
                os.replace(out + '.tmp', out)
    finally:
        fcntl.flock(lock, fcntl.LOCK_UN)
        lock.close()
    return b


def rt_objs():
    b = os.path.join(VERIF, 'build')
    return [os.path.join(b, 'vrt.o'), os.path.join(b, 'vrt_asm.o')]


# ---------------------------------------------------------------- known findings
def load_findings():
    """known_findings.txt: one record per line.
       open: property=<id> key=<key> :: <what fails> :: witness=<input/history>
       fixed: property=<id> <commit> <what failed>          (suppresses nothing)"""
    path = os.path.join(VERIF, 'known_findings.txt')
    res = []
    if os.path.exists(path):
        for line in open(path):
            line = line.rstrip('\n')
            if line.startswith('open: '):
                parts = line[6:].split(' :: ')
                m = re.match(r'property=(\S+) key=(.*)$', parts[0])
                if not m:
                    continue
                res.append({'status': 'open', 'property': m.group(1), 'key': m.group(2).strip(),
                            'what': parts[1].strip() if len(parts) > 1 else '',
                            'witness': parts[2].strip() if len(parts) > 2 else ''})
            elif line.startswith('fixed: '):
                m = re.match(r'fixed: property=(\S+) (\S+) (.*)$', line)
                if m:
                    res.append({'status': 'fixed', 'property': m.group(1), 'commit': m.group(2), 'what': m.group(3)})
    return res


# ---------------------------------------------------------------- context
class Ctx:
    def __init__(self, prop, tier, seed, level='exploration'):
        self.prop = prop
        self.tier = tier
        self.seed = seed
        self.level = level
        self.t0 = time.time()
        self.work = tempfile.mkdtemp(prefix='cv.%s.' % prop, dir=os.environ.get('VERIF_TMP', '/tmp'))
        self.counts = {}
        self.samples = []
        self.distinct = set()
        self.evaluations = 0
        self.violations = {}       # key -> dict(what, replay)
        self.known_hit = {}        # key -> what
        self.findings = [f for f in load_findings() if f.get('property') == prop]
        self.open_keys = {f['key']: f for f in self.findings if f.get('status') == 'open'}
        self.assumptions = []
        self.rule = ''
        self.extra = {}
        self.exhaustive = None
        self.inconclusive = []
        self._builds = {}
        self._replays_cleared = False
        self.rng = random.Random((seed * 1000003) ^ int(hashlib.sha1(prop.encode()).hexdigest()[:8], 16))

    # -- bookkeeping -------------------------------------------------------
    def quick(self):
        return self.tier == 'quick'

    def scale(self, q, t):
        return q if self.tier == 'quick' else t

    def count(self, name, n=1):
        self.counts[name] = self.counts.get(name, 0) + n

    def sample(self, s, limit=6):
        if len(self.samples) < limit:
            self.samples.append(s)

    def saw(self, feature):
        """Record a distinct non-trivial feature tuple actually exercised."""
        self.distinct.add(feature)

    def open_features(self):
        """Keys of open findings (generators exclude these features from composites)."""
        return set(self.open_keys)

    def is_open(self, key):
        return key in self.open_keys

    def violation(self, key, what, files=None, script=None):
        """Report a failing observation.  `key` is the canonical class key (Appendix A)."""
        if key in self.open_keys:
            if key not in self.known_hit:
                self.known_hit[key] = self.open_keys[key].get('what', what)
            return False
        if key in self.violations:
            self.violations[key]['n'] += 1
            return True
        if not self._replays_cleared:
            shutil.rmtree(os.path.join(VERIF, 'replays', self.prop), ignore_errors=True)
            self._replays_cleared = True
        d = os.path.join(VERIF, 'replays', self.prop, sha(key, 12))
        shutil.rmtree(d, ignore_errors=True)
        os.makedirs(d, exist_ok=True)
        for name, content in (files or {}).items():
            mode = 'wb' if isinstance(content, bytes) else 'w'
            p = os.path.join(d, name)
            os.makedirs(os.path.dirname(p), exist_ok=True)
            with open(p, mode) as f:
                f.write(content)
        with open(os.path.join(d, 'replay.json'), 'w') as f:
            json.dump({'property': self.prop, 'key': key, 'what': what, 'seed': self.seed,
                       'tier': self.tier}, f, indent=1)
        if script:
            p = os.path.join(d, 'cmd.sh')
            with open(p, 'w') as f:
                f.write('#!/bin/bash\n# replay: run with CHIBICC=<path to chibicc built from /repo>, '
                        'RT="<vrt objects>"; exits 1 when the violation reproduces\n'
                        'cd "$(dirname "$0")"\n' + script + '\n')
            os.chmod(p, 0o755)
        self.violations[key] = {'what': what, 'replay': d, 'n': 1}
        return True

    def note_inconclusive(self, why):
        self.inconclusive.append(why)

    # -- builds ------------------------------------------------------------
    def snapshot(self):
        """Copy /repo's working tree sources into the scratch dir (once)."""
        if 'snap' in self._builds:
            return self._builds['snap']
        dst = os.path.join(self.work, 'src')
        os.makedirs(dst)
        for name in sorted(os.listdir(REPO)):
            p = os.path.join(REPO, name)
            if os.path.isfile(p) and (name.endswith('.c') or name.endswith('.h') or name == 'Makefile'):
                shutil.copy2(p, dst)
        shutil.copytree(os.path.join(REPO, 'include'), os.path.join(dst, 'include'))
        os.makedirs(os.path.join(dst, 'test'))
        for name in sorted(os.listdir(os.path.join(REPO, 'test'))):
            if name.endswith(('.c', '.h', '.sh')) or name == 'common':
                shutil.copy2(os.path.join(REPO, 'test', name), os.path.join(dst, 'test'))
        self._builds['snap'] = dst
        return dst

    def build(self, variant='plain'):
        """Build chibicc from the snapshot; returns the path of the binary.
        plain: repo CFLAGS + -DCHIBICC_VERIF   san: ASan+UBSan(+guard)   nohook: repo CFLAGS only"""
        if variant in self._builds:
            return self._builds[variant]
        snap = self.snapshot()
        d = os.path.join(self.work, 'b-' + variant)
        os.makedirs(d)
        for name in os.listdir(snap):
            p = os.path.join(snap, name)
            if os.path.isfile(p):
                shutil.copy2(p, d)
        shutil.copytree(os.path.join(snap, 'include'), os.path.join(d, 'include'))
        if variant == 'plain':
            cflags = BASE_CFLAGS + ' -w -D' + GUARD
        elif variant == 'nohook':
            cflags = BASE_CFLAGS + ' -w'
        elif variant == 'san':
            cflags = SAN_CFLAGS + ' -D' + GUARD
        elif variant == 'cov':
            cflags = BASE_CFLAGS + ' -w -O0 --coverage -D' + GUARD
        else:
            raise ValueError(variant)
        ldflags = ''
        if variant == 'san':
            ldflags = '-fsanitize=address,undefined'
        if variant == 'cov':
            ldflags = '--coverage'
        rc, o, e = sh(['make', '-j%d' % NPROC, 'chibicc', 'CC=gcc', 'CFLAGS=' + cflags, 'LDFLAGS=' + ldflags],
                      cwd=d, timeout=600)
        exe = os.path.join(d, 'chibicc')
        if rc != 0 or not os.path.exists(exe):
            raise Inconclusive('build of chibicc (%s) failed:\n%s' % (variant, e.decode('utf-8', 'replace')[-2000:]))
        self._builds[variant] = exe
        return exe

    def stage(self, n):
        """Self-compiled compilers: stage(2) is built by plain stage 1, stage(3) by stage 2.
        Each stage lives in <work>/sN/chibicc with sN/include, to be invoked as ./chibicc with cwd=sN."""
        key = 'stage%d' % n
        if key in self._builds:
            return self._builds[key]
        prev = self.build('nohook') if n == 2 else self.stage(n - 1)
        snap = self.snapshot()
        d = os.path.join(self.work, 's%d' % n)
        os.makedirs(d)
        shutil.copytree(os.path.join(snap, 'include'), os.path.join(d, 'include'))
        srcs = sorted(f for f in os.listdir(snap) if f.endswith('.c'))

        def one(f):
            return sh([prev, '-c', '-o', os.path.join(d, f[:-2] + '.o'), f], cwd=snap, timeout=300)
        with concurrent.futures.ThreadPoolExecutor(NPROC) as ex:
            rs = list(ex.map(one, srcs))
        for f, (rc, o, e) in zip(srcs, rs):
            if rc != 0:
                raise Inconclusive('stage %d: compiling %s failed: %s' % (n, f, e.decode('utf-8', 'replace')[-500:]))
        rc, o, e = sh(['gcc', '-o', os.path.join(d, 'chibicc')] + [os.path.join(d, f[:-2] + '.o') for f in srcs])
        if rc != 0:
            raise Inconclusive('stage %d link failed: %s' % (n, e.decode()))
        self._builds[key] = os.path.join(d, 'chibicc')
        return self._builds[key]

    def tmpdir(self, name):
        d = os.path.join(self.work, name)
        os.makedirs(d, exist_ok=True)
        return d

    def cleanup(self):
        shutil.rmtree(self.work, ignore_errors=True)

    # -- evidence ----------------------------------------------------------
    def write_evidence(self, status):
        cov = {
            'evaluations': int(self.evaluations),
            'distinct_nontrivial': len(self.distinct),
            'rule': self.rule,
            'samples': self.samples[:8] or ['(no sample recorded)'],
            'event_counts': self.counts,
            'known_findings_hit': sorted(self.known_hit),
            'status': status,
        }
        if self.exhaustive is not None:
            cov['exhaustive'] = bool(self.exhaustive)
        cov.update(self.extra)
        ev = {
            'property_id': self.prop,
            'tier': self.tier,
            'seed': int(self.seed),
            'level': self.level,
            'coverage': cov,
            'assumptions': self.assumptions,
            'wall_s': round(time.time() - self.t0, 2),
            'violations': len(self.violations),
        }
        os.makedirs(os.path.join(VERIF, 'evidence'), exist_ok=True)
        p = os.path.join(VERIF, 'evidence', self.prop + '.json')
        with open(p + '.tmp', 'w') as f:
            json.dump(ev, f, indent=1, sort_keys=True, default=str)
        os.replace(p + '.tmp', p)


# ---------------------------------------------------------------- parallel helpers
def pmap(fn, items, nproc=None, chunksize=1):
    """Process-parallel map (fork); fn must be a module-level function."""
    items = list(items)
    if not items:
        return []
    nproc = min(nproc or NPROC, len(items))
    if nproc <= 1:
        return [fn(x) for x in items]
    with multiprocessing.get_context('fork').Pool(nproc) as pool:
        return pool.map(fn, items, chunksize)


def tmap(fn, items, nthreads=None):
    """Thread-parallel map for subprocess-bound work."""
    items = list(items)
    if not items:
        return []
    with concurrent.futures.ThreadPoolExecutor(nthreads or NPROC) as ex:
        return list(ex.map(fn, items))


# ---------------------------------------------------------------- compile-and-run (three compilers)
REF_WARN = ['-w']


def compile_chibicc(cc, src, out_obj, extra=(), env=None, timeout=120):
    return sh([cc, '-c', '-o', out_obj, src] + list(extra), env=env, timeout=timeout)


def link(objs, exe, extra=()):
    return sh(['gcc', '-o', exe] + list(objs) + rt_objs() + ['-lm', '-lpthread'] + list(extra))


def run_exe(exe, timeout=20, env=None, args=()):
    return sh([exe] + list(args), timeout=timeout, env=env)


def build_and_run(kind, cc, src, workdir, tag, extra_cflags=(), run_env=None, timeout=20, probes=False,
                  extra_objs=(), include_rt=True):
    """Compile `src` with compiler `kind` in {'chibicc','gcc','clang'} and run it.
    Returns dict(stage, rc, out, err)."""
    obj = os.path.join(workdir, '%s.%s.o' % (tag, kind))
    exe = os.path.join(workdir, '%s.%s.exe' % (tag, kind))
    inc = ['-I' + os.path.join(VERIF, 'rt')] if include_rt else []
    if kind == 'chibicc':
        env = {'CHIBICC_VERIF_PROBES': '1'} if probes else None
        rc, o, e = sh([cc, '-c', '-o', obj, src] + inc + list(extra_cflags), env=env, timeout=120)
    elif kind == 'gcc':
        rc, o, e = sh(['gcc', '-std=gnu11', '-O0', '-w', '-c', '-o', obj, src] + inc + list(extra_cflags), timeout=120)
    else:
        rc, o, e = sh(['clang', '-std=gnu11', '-O0', '-w', '-c', '-o', obj, src] + inc + list(extra_cflags), timeout=120)
    if rc != 0:
        return {'stage': 'compile', 'rc': rc, 'out': o, 'err': e}
    rc, o, e = link([obj] + list(extra_objs), exe)
    if rc != 0:
        return {'stage': 'link', 'rc': rc, 'out': o, 'err': e}
    rc, o, e = run_exe(exe, timeout=timeout, env=run_env)
    for p in (obj, exe):
        try:
            os.unlink(p)
        except OSError:
            pass
    return {'stage': 'run', 'rc': rc, 'out': o, 'err': e}


def three_way(cc, src, workdir, tag, **kw):
    """Run under chibicc, gcc and clang.  Returns (verdict, results) with verdict in
    'agree' | 'chibicc-differs' | 'ambiguous' | 'ref-fail'."""
    r = {k: build_and_run(k, cc, src, workdir, tag, **kw) for k in ('gcc', 'clang', 'chibicc')}
    g, c, x = r['gcc'], r['clang'], r['chibicc']
    if g['stage'] != 'run' or c['stage'] != 'run' or g['rc'] == 'timeout' or c['rc'] == 'timeout':
        return 'ref-fail', r
    if (g['rc'], g['out']) != (c['rc'], c['out']):
        return 'ambiguous', r
    if x['stage'] == 'run' and (x['rc'], x['out']) == (g['rc'], g['out']):
        return 'agree', r
    return 'chibicc-differs', r


def first_diff(a, b):
    """First differing line of two outputs (bytes) -> (lineno, line_a, line_b)."""
    la, lb = a.split(b'\n'), b.split(b'\n')
    for i in range(max(len(la), len(lb))):
        x = la[i] if i < len(la) else b'<eof>'
        y = lb[i] if i < len(lb) else b'<eof>'
        if x != y:
            return i, x.decode('utf-8', 'replace'), y.decode('utf-8', 'replace')
    return None


def all_diffs(a, b, limit=100000):
    """Line-wise diffs for outputs with identical line structure: yields (lineno, a, b)."""
    la, lb = a.split(b'\n'), b.split(b'\n')
    res = []
    for i in range(max(len(la), len(lb))):
        x = la[i] if i < len(la) else b'<eof>'
        y = lb[i] if i < len(lb) else b'<eof>'
        if x != y:
            res.append((i, x.decode('utf-8', 'replace'), y.decode('utf-8', 'replace')))
            if len(res) >= limit:
                break
    return res


# ---------------------------------------------------------------- cc1 outcome classification (C13 & friends)
DIAG_RE = re.compile(r'^(.*?):(-?\d+): ')


def classify_cc1(rc, out, err, input_files):
    """Classify one direct cc1 execution (DESIGN 2.5).  input_files: dict path -> line count.
    Returns (kind, detail) where kind is 'ok' | 'diag' | anomaly kinds."""
    if rc == 'timeout':
        return 'hang', ''
    errt = err.decode('utf-8', 'replace')
    if 'AddressSanitizer' in errt or 'runtime error:' in errt or 'LeakSanitizer' in errt:
        m = re.search(r'ERROR: AddressSanitizer: ([\w-]+)', errt)
        kind = m.group(1) if m else ('ubsan' if 'runtime error:' in errt else 'sanitizer')
        return 'sanitizer:' + kind, san_frames(errt)
    if isinstance(rc, int) and rc < 0:
        return 'signal:%s' % signal.Signals(-rc).name, ''
    if rc == 0:
        return 'ok', ''
    if 'internal error' in errt:
        return 'internal-error', first_line(errt)
    if 'Assertion' in errt and 'failed' in errt:
        return 'abort', first_line(errt)
    if rc != 1:
        return 'exit:%s' % rc, first_line(errt)
    if not errt.strip():
        return 'silent-failure', ''
    # located diagnostic? (warnings such as "extra token" may precede the error)
    lines = errt.split('\n')
    located = False
    for i, ln in enumerate(lines):
        m = DIAG_RE.match(ln)
        if m:
            f, n = m.group(1), int(m.group(2))
            if f in input_files and 1 <= n <= input_files[f]:
                located = True
            elif f in input_files:
                return 'bad-line', '%s:%d (file has %d lines)' % (os.path.basename(f), n, input_files[f])
            elif f in ('<built-in>', '<command line>'):
                located = True
    if located:
        return 'diag', ''
    return 'unlocated', first_line(errt)


def first_line(t):
    for ln in t.split('\n'):
        if ln.strip():
            return re.sub(r'/tmp/[\w./-]+', '<path>', ln.strip())[:160]
    return ''


def san_frames(errt, n=3):
    """Three innermost in-repo frames (function names) of a sanitizer report."""
    fr = []
    for m in re.finditer(r'#\d+ 0x[0-9a-f]+ in (\w+) ([^\s]+)', errt):
        fn, loc = m.group(1), m.group(2)
        base = os.path.basename(loc.split(':')[0])
        if base in ('codegen.c', 'hashmap.c', 'main.c', 'parse.c', 'preprocess.c', 'strings.c', 'tokenize.c',
                    'type.c', 'unicode.c'):
            fr.append(fn)
        if len(fr) >= n:
            break
    return '<'.join(fr)


def gdb_frames(cmd, cwd=None, n=3, timeout=60):
    """Innermost in-repo frames of a crashing plain-build run, via gdb -batch."""
    rc, o, e = sh(['gdb', '-batch', '-ex', 'run', '-ex', 'bt 40', '--args'] + cmd, cwd=cwd, timeout=timeout, text=True)
    fr = []
    for m in re.finditer(r'^#\d+\s+(?:0x[0-9a-f]+ in )?(\w+) \(.*?\) at (\S+?):\d+', o, re.M):
        if os.path.basename(m.group(2)).endswith('.c') and os.path.basename(m.group(2)) in (
                'codegen.c', 'hashmap.c', 'main.c', 'parse.c', 'preprocess.c', 'strings.c', 'tokenize.c', 'type.c',
                'unicode.c'):
            fr.append(m.group(1))
        if len(fr) >= n:
            break
    return '<'.join(fr)


def cc1_cmd(cc, src, out, extra=()):
    return [cc, '-cc1', '-cc1-input', src, '-cc1-output', out, src] + list(extra)


def norm_ws(t):
    return ' '.join(t.split())


def header_probe(ctx, cc, work, name, src, keyfmt, skip=()):
    """Dedicated probe of the compiler's own headers: a program that prints one `label value...` line per observation is built by chibicc, gcc
    and clang (each with its own copy of the header); every line on which gcc and clang agree must be printed identically by chibicc.
    keyfmt % label gives the violation key."""
    p = os.path.join(work, name + '.c')
    open(p, 'w').write(src)
    res = {k: build_and_run(k, cc, p, work, name, timeout=60, include_rt=False) for k in ('chibicc', 'gcc', 'clang')}
    ctx.evaluations += 1
    g, c, x = res['gcc'], res['clang'], res['chibicc']
    if g['stage'] != 'run' or c['stage'] != 'run':
        raise Inconclusive('reference failed on the %s probe: %s' % (name, (g['err'] + c['err']).decode('utf-8', 'replace')[-300:]))
    files = {name + '.c': src}
    script = '$CHIBICC -o got.exe %s.c && ./got.exe > got.txt; gcc -w -o ref.exe %s.c && ./ref.exe > ref.txt; cmp -s got.txt ref.txt && exit 0; diff got.txt ref.txt | head; exit 1' % (name, name)
    if x['stage'] != 'run' or x['rc'] != 0:
        ctx.violation(keyfmt % ('rejected' if x['stage'] == 'compile' else 'crash'), '%s: %s' % (name, first_line(x['err'].decode('utf-8', 'replace'))), files=files, script=script)
        return

    def table(r):
        d = {}
        for l in r['out'].decode('utf-8', 'replace').split('\n'):
            if ' | ' in l:
                k, v = l.split(' | ', 1)        # labels that contain blanks (stringized expressions) end at the bar
                d[k] = v
            elif ' ' in l:
                k, v = l.split(' ', 1)
                d[k] = v
        return d
    tg, tc, tx = table(g), table(c), table(x)
    for k in sorted(tg):
        if k in skip or tc.get(k) != tg[k]:
            ctx.count('header_observations_reference_ambiguous')
            continue
        ctx.count('header_observations')
        ctx.saw('%s:%s' % (name, k))
        if tx.get(k) != tg[k]:
            ctx.violation(keyfmt % k, '%s: chibicc prints `%s`, gcc = clang `%s`' % (k, tx.get(k), tg[k]), files=files, script=script)
